#!/bin/bash
# Build grsim (asan and/or tsan flavour) from /repo's current working tree. Object cache keyed by content hash.
# usage: build.sh <asan|tsan> [repo]   -> prints the path of the binary
set -e
FLAVOUR=${1:-asan}
REPO=${2:-/repo}
VERIF=$(cd "$(dirname "$0")" && pwd)
CXX=clang++
COMMON="-O1 -g -std=c++17 -fno-omit-frame-pointer -DGRAPHITE2_VERIF -DGRAPHITE2_NTRACING -DGRAPHITE2_STATIC -DGRAPHITE2_EXPORTING -Wno-deprecated-declarations"
if [ "$FLAVOUR" = asan ]; then SAN="-fsanitize=address,undefined,float-cast-overflow -fno-sanitize-recover=all"; elif [ "$FLAVOUR" = tsan ]; then SAN="-fsanitize=thread"; else SAN="-DGRSIM_PLAIN=1 -gdwarf-4"; fi
LIBFLAGS="$COMMON $SAN -fsanitize-coverage=trace-pc-guard -fno-rtti -fno-exceptions -I$REPO/include -I$REPO/src"
SIMFLAGS="$COMMON $SAN -fno-rtti -I$REPO/include -I$REPO/src -I$VERIF/sim"
[ "$FLAVOUR" = tsan ] && SIMFLAGS="$COMMON -fno-rtti -I$REPO/include -I$REPO/src -I$VERIF/sim -DGRSIM_TSAN_BUILD=1"
LIBSRC="CmapCache Code Collider Decompressor Face FeatureMap FileFace Font GlyphCache GlyphFace Intervals Justifier NameTable Pass Position Segment Silf Slot Sparse TtfUtil UtfCodec direct_machine gr_char_info gr_face gr_features gr_font gr_logging gr_segment gr_slot json"
SIMSRC=$(cd $VERIF/sim && ls *.cpp | sed 's/\.cpp$//')
HASH=$( (echo "$FLAVOUR $LIBFLAGS $SIMFLAGS"; cat $REPO/src/*.cpp $REPO/src/inc/*.h $REPO/include/graphite2/*.h $VERIF/sim/*.cpp $VERIF/sim/*.h) | sha1sum | cut -c1-16)
OUT=$VERIF/build/$HASH-$FLAVOUR
BIN=$OUT/grsim
mkdir -p $VERIF/build
exec 9>$VERIF/build/.lock-$FLAVOUR
flock 9
if [ -x $BIN ]; then touch $OUT; echo $BIN; exit 0; fi
# drop old builds of this flavour (disk is limited): keep the 8 most recently used, never one used in the last 30 minutes
ls -1dt $VERIF/build/*-$FLAVOUR 2>/dev/null | tail -n +9 | while read d; do
  if [ -d "$d" ] && [ -z "$(find "$d" -maxdepth 0 -mmin -30)" ]; then rm -rf "$d"; fi
done
mkdir -p $OUT
pids=()
fail=0
for s in $LIBSRC; do ( $CXX $LIBFLAGS -c $REPO/src/$s.cpp -o $OUT/lib_$s.o 2>$OUT/lib_$s.err || { cat $OUT/lib_$s.err >&2; exit 1; } ) & pids+=($!); done
for s in $SIMSRC; do ( $CXX $SIMFLAGS -c $VERIF/sim/$s.cpp -o $OUT/sim_$s.o 2>$OUT/sim_$s.err || { cat $OUT/sim_$s.err >&2; exit 1; } ) & pids+=($!); done
for p in "${pids[@]}"; do wait $p || fail=1; done
if [ $fail = 1 ]; then rm -rf $OUT; echo "BUILD FAILED" >&2; exit 2; fi
cat $OUT/*.err >&2 || true
WRAPS="-Wl,--wrap=fopen,--wrap=fseek,--wrap=ftell,--wrap=fread,--wrap=fclose"
if [ "$FLAVOUR" = tsan ]; then for b in 8 16 32 64; do for o in load store exchange fetch_add fetch_sub compare_exchange_strong compare_exchange_weak; do WRAPS="$WRAPS,--wrap=__tsan_atomic${b}_$o"; done; done; fi
$CXX $SAN -g -o $BIN $OUT/*.o $WRAPS >&2 || { rm -rf $OUT; exit 2; }
rm -f $OUT/*.err
echo $BIN
