#!/usr/bin/env python3
"""Regenerates /verif/MANIFEST.json from lib/props.py (single source of truth for the check list)."""
import json, os, sys
sys.path.insert(0, os.path.dirname(os.path.abspath(__file__)))
from props import PROPS, MANIFEST_TEXT, NOT_APPLICABLE, HOOK_COMMITS

checks = []
for pid in sorted(PROPS):
    t = MANIFEST_TEXT[pid]
    checks.append({
        'property_id': pid,
        'quick_cmd': './check %s --tier quick' % pid,
        'thorough_cmd': './check %s --tier thorough' % pid,
        'evidence_file': 'evidence/%s.json' % pid,
        'replay_cmd_template': './check %s --replay {path}' % pid,
        'engine': 'grsim',
        'level_claimed': {'category': PROPS[pid]['level'], 'text': t['text'], 'design_ref': t['design_ref']},
        'level_note': t['note'],
        'technique': t['technique'],
    })
m = {
    'version': 1,
    'setup_cmd': './check build',
    'hooks': {
        'guard': 'GRAPHITE2_VERIF',
        'enable': 'build.sh compiles /repo/src/*.cpp with -DGRAPHITE2_VERIF (clang++ -O1, sanitizers, -fsanitize-coverage=trace-pc-guard) and links them statically with the simulator',
        'baseline_off_cmd': 'cmake -G Ninja -S /repo -B /repo/_build >/dev/null && cmake --build /repo/_build >/dev/null && ctest --test-dir /repo/_build -j8 --timeout 900',
        'source_commits': HOOK_COMMITS,
        'add_only': True,
    },
    'engines': [{'name': 'grsim', 'path': 'sim/', 'serves_properties': sorted(PROPS), 'kind_free_text': 'deterministic simulator (C++17): seeded plans, simulated table storage / stdio / clock / allocator ledger / fiber scheduler around the real library; driver ./check (Python 3)'}],
    'checks': checks,
    'not_applicable': [{'property_id': k, 'reason': v} for k, v in sorted(NOT_APPLICABLE.items()) if k not in PROPS],
    'notes': 'Deterministic simulation with fault injection; see DESIGN.md. Exit codes: 0 held, 1 VIOLATION (gated, minimised, replayable), 2 undecided (machinery). known_findings.txt lists fixed defects and open findings.',
}
json.dump(m, open(os.path.join(os.path.dirname(os.path.abspath(__file__)), '..', 'MANIFEST.json'), 'w'), indent=1)
print('checks:', len(checks), 'n/a:', len(m['not_applicable']))
