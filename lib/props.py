"""Per-property check specifications: which simulator modes run, how many runs per tier."""

MODE_FLAVOUR = {
    'load': 'asan', 'shape': 'asan', 'just': 'asan', 'hist': 'asan', 'conf': 'asan', 'borrow': 'asan', 'sweep': 'asan',
    'feat': 'asan', 'lz4': 'asan', 'lz4c': 'asan', 'fuzzreg': 'asan', 'conc': 'tsan', 'synth': 'asan',
}

_FACE_APIS = ('gr_make_face', 'gr_make_file_face', 'face-exercise', 'face-report', 'face-query', 'label', 'gr_face_destroy', 'featureval',
              'fval-op', 'feat-readback', 'gr_make_font', 'gr_font_destroy', 'gr_face_n_fref', 'gr_face_featureval_for_lang', 'gr_featureval_clone', 'gr_featureval_destroy')
_JUST_APIS = ('gr_seg_justify', 'gr_slot_linebreak_before', 'line-walk')


def api_property(api, mode):
    """property charged for a sanitizer abort / budget overrun that happened inside `api` in `mode`"""
    if mode in ('lz4', 'lz4c') and api in ('gr_make_face', 'lz4-decompress'):
        return 'C14'
    if api in _JUST_APIS:
        return 'C19'
    if api in _FACE_APIS:
        return 'C01'
    return 'C02'


_ASSUME = [
    'clang 14 ASan/UBSan(+float-cast-overflow)/TSan runtimes and sancov edge instrumentation are trusted',
    'the instrumented static clang -O1 build with the direct-threaded interpreter stands for the library',
    'sampling, not enumeration: a clean batch is evidence, not proof',
]

PROPS = {
    'C01': {
        'level': 'exploration',
        'batches': [{'mode': 'fuzzreg', 'quick': 'all', 'thorough': 'all', 'chunk': 40}, {'mode': 'load', 'quick': 40000, 'thorough': 1500000, 'chunk': 250}],
        'rule': 'one run = one simulated font storage (corpus font + seeded storage/file faults) + one constructor call + the full face query script + destroy; '
                'distinct = distinct plan hash; non-trivial = the constructor returned a face and the query script ran',
        'require_probes': ['load:accepted-unfaulted', 'load:rejected'],
        'assumptions': _ASSUME,
    },
    'C02': {
        'level': 'exploration',
        'batches': [{'mode': 'fuzzreg', 'quick': 'all', 'thorough': 'all', 'chunk': 40}, {'mode': 'shape', 'quick': 12000, 'thorough': 500000, 'chunk': 100}, {'mode': 'synth', 'quick': 30000, 'thorough': 900000, 'chunk': 200}, {'mode': 'just', 'quick': 8000, 'thorough': 300000, 'chunk': 400}],
        'rule': 'one run = one (possibly rotten or synthesised) font storage accepted by gr_make_face + 3..40 gr_make_seg calls with the full accessor script (just mode: the accessor script again after gr_seg_justify); '
                'distinct = distinct plan hash; non-trivial = face accepted and at least one segment operation executed',
        'require_probes': ['seg:returned', 'seg:exercised'],
        'assumptions': _ASSUME,
    },
}
PROPS['C19'] = {
    'level': 'exploration',
    'batches': [{'mode': 'just', 'quick': 60000, 'thorough': 3000000, 'chunk': 400}],
    'rule': 'one run = one segment (font x text x dir 0..7 x optional gr_font) cut and justified by a seeded history of 1..12 gr_slot_linebreak_before / gr_seg_justify calls, '
            'chain/order/gid/finiteness oracle after every call; distinct = distinct plan hash; non-trivial = the segment was made and at least one break/justify call executed',
    'require_probes': ['just:justify', 'just:linebreak', 'just:justify-multiline'],
    'assumptions': _ASSUME,
}

_MON = {
    'level': 'exploration',
    'batches': [{'mode': 'synth', 'quick': 48000, 'thorough': 1200000, 'chunk': 200}, {'mode': 'shape', 'quick': 6000, 'thorough': 300000, 'chunk': 100}, {'mode': 'hist', 'quick': 3000, 'thorough': 150000, 'chunk': 100},
                {'mode': 'just', 'quick': 8000, 'thorough': 400000, 'chunk': 400}, {'mode': 'conf', 'quick': 2000, 'thorough': 100000, 'chunk': 100}],
    'require_probes': ['monitor:segments', 'seg:returned'],
    'assumptions': _ASSUME + ['the program dimension is reached through storage faults on the shipped rule sets, not through a rule compiler'],
}
for _id, _what in (('C03', 'glyph stream (next/prev walk, count, index permutation, finiteness, gid range on pristine fonts)'),
                   ('C04', 'attachment forest (parent walk, child chains, base chain)'),
                   ('C05', 'char<->slot association (n_cinfo, reference decoding incl. U+FFFD, bases, before/after/original ranges, coverage)')):
    PROPS[_id] = dict(_MON)
    PROPS[_id]['rule'] = ('invariant monitor for the %s evaluated on every segment returned in shape (rotten programs, lazy glyph faults), hist (histories), '
                          'just and conf runs; evaluations = simulated runs, distinct = distinct plan hash, non-trivial = at least one segment was returned and monitored; '
                          'coverage.probes["monitor:segments"] is the number of segments checked' % _what)

PROPS['C08'] = {
    'level': 'exploration',
    'batches': [{'mode': 'hist', 'quick': 20000, 'thorough': 800000, 'chunk': 100}],
    'rule': 'one run = one face with a seeded history of 0..40 API calls (segments kept alive or destroyed, feature values, labels, queries, fonts, line breaks, justification) '
            'followed by a probe gr_make_seg and a self-report, compared bit-for-bit with a twin face that has no history; distinct = distinct plan hash; '
            'non-trivial = the face loaded and the probe returned a comparable dump',
    'require_probes': ['seg:returned', 'label:query'],
    'assumptions': _ASSUME + ['bit-exact float comparison is sound because both faces execute the same code on the same bytes in one process'],
}
PROPS['C10'] = {
    'level': 'exploration',
    'batches': [{'mode': 'conf', 'quick': 12000, 'thorough': 500000, 'chunk': 100}],
    'rule': 'one run = one pristine corpus font loaded under a reference configuration (options 0, callbacks) and 1..3 seeded variants (options 0..7 x file/callbacks x constructor variant x '
            'release_table present/NULL x short ops.size), the same 4..30 operations executed on each and compared bit-for-bit; distinct = distinct plan hash; non-trivial = at least one operation compared',
    'require_probes': ['seg:returned'],
    'assumptions': _ASSUME,
}
PROPS['C16'] = {
    'level': 'exploration',
    'batches': [{'mode': 'sweep', 'quick': 26624, 'thorough': 26624, 'chunk': 400}, {'mode': 'borrow', 'quick': 25000, 'thorough': 1200000, 'chunk': 150}],
    'rule': 'sweep: every (font x options 0..7 x 13 table tags x request 0/1 x 8 single storage faults) plan; borrow: seeded histories over 1..3 faces (faulted or not) with interleaved '
            'destruction; ledger oracle after every call (exactly-once release, none after destroy, nothing outstanding after a failed constructor, no request after a preloadAll constructor, '
            'empty allocation set at quiescence); distinct = distinct plan hash; non-trivial = at least one API call after the constructor',
    'require_probes': ['load:accepted', 'load:rejected'],
    'assumptions': _ASSUME,
    'level_note': 'exploration + single-fault sweep',
}

HOOK_COMMITS = ['e9e41482']   # /repo: verif hook H1 (GRAPHITE2_VERIF): rule-loop counter in Pass::runGraphite + SlotMap::verifMaxSize()

_PURE = 'pure function of its explicit arguments: no I/O, callback, shared state, history, schedule or clock in its statement, so there is nothing for a simulator to schedule or fault (DESIGN.md section 8)'
NOT_APPLICABLE = {
    'C06': 'rule matching/precedence vs a reference semantics is a ' + _PURE + '; needs a GDL-subset compiler and reference interpreter (differential testing)',
    'C07': 'VM opcode semantics and direct- vs call-threaded agreement: ' + _PURE + '; the second clause compares two builds',
    'C11': 'gr_count_unicode_characters / encoding equivalence: ' + _PURE,
    'C12': 'gr_make_seg NUL handling when nChars over-estimates: ' + _PURE,
    'C13': 'cmap lookup vs OpenType rules over all code points: ' + _PURE + ' (option equivalence on a code-point sample is covered under C10)',
    'C15': 'linear scaling with ppm: pure metamorphic relation on one call\'s arguments; ' + _PURE,
    'C17': 'collision geometry and interval set: ' + _PURE + ' (the collision code is executed under C02 for safety/termination only)',
    'C20': 'gr_str_to_tag / gr_tag_to_str buffer contracts: ' + _PURE,
    'C09': 'check under construction in this session (fiber scheduler + TSan); will be claimed when built',
    'C14': 'check under construction in this session (LZ4 storage-format knob); will be claimed when built',
    'C18': 'check under construction in this session (feature-value reference model); will be claimed when built',
}

_T = 'deterministic simulation: seeded plans over simulated table storage / stdio with fault injection, '
MANIFEST_TEXT = {
    'C01': {'text': 'Seeded exploration of storage/file fault sequences (bit-rot, torn, truncated, missing, short reads, lying directory ...) x options x sources against the real loader under ASan/UBSan, '
                    'step-clock watchdog and allocation/handle ledger; plus the repository\'s historical single-byte crashers as a regression prefix. Sampling, not proof.',
            'design_ref': '4.1', 'note': 'trusts clang 14 sanitizers and the instrumented clang -O1 static build; faults are sampled (aimed at structure-bearing bytes), not enumerated',
            'technique': _T + 'sanitizer + step-budget + ledger oracles'},
    'C02': {'text': 'Rotten-but-accepted fonts (storage faults on Silf/Glat/Gloc/cmap/...), lazily failing glyph reads mid-shaping, all encodings/dirs/features; oracles: sanitizers, step budget, '
                    '64x growth cap, per-pass loop bound (hook H1), segment allocation ledger.',
            'design_ref': '4.2', 'note': 'programs are reached by storage faults on the shipped rule sets, not by a rule compiler; sampling', 'technique': _T + 'loop-counter hook, step clock, sanitizers'},
    'C03': {'text': 'Invariant monitor evaluated on every segment any simulated run obtains (rotten programs, lazy faults, histories, option knobs).', 'design_ref': '4.3',
            'note': 'input and program dimensions are sampled; gid clause only on pristine fonts', 'technique': _T + 'invariant monitor in every run'},
    'C04': {'text': 'Invariant monitor (attachment forest, child chains, base chain) on every segment of every simulated run.', 'design_ref': '4.3',
            'note': 'sampled inputs/programs', 'technique': _T + 'invariant monitor in every run'},
    'C05': {'text': 'Invariant monitor with the harness\'s own reference decoder (incl. ill-formed sequences -> U+FFFD) on every segment of every simulated run.', 'design_ref': '4.3',
            'note': 'ill-formed input restricted to sequences on which all decoding policies agree (C11 is out of scope)', 'technique': _T + 'invariant monitor + reference decoder'},
    'C08': {'text': 'API histories on a long-lived face vs a fresh twin face: probe segment dumps and face self-reports compared bit-for-bit; histories shrink to minimal counter-examples.', 'design_ref': '4.4',
            'note': 'histories sampled; twin equality is exact because both faces run the same code on the same bytes', 'technique': _T + 'history vs fresh-twin refinement check'},
    'C10': {'text': 'Knob swarm: the same operations under every option/source/constructor configuration compared bit-for-bit with the reference configuration.', 'design_ref': '4.6',
            'note': 'pristine corpus fonts only (the property speaks of well-formed fonts)', 'technique': _T + 'configuration swarm with twin comparison'},
    'C16': {'text': 'Ledger over multi-face histories x storage faults, checked after every call, plus a systematic single-fault sweep over (font, options, tag, request, fault kind).', 'design_ref': '4.8',
            'note': 'single faults are enumerated, multi-fault histories sampled; ASan backs the never-dereferenced-after-release clause', 'technique': _T + 'borrow ledger + single-fault sweep'},
    'C19': {'text': 'Histories of line breaks and justify calls (any dir, width, flags, sub-range, repeated) with the chain/order/gid/finiteness oracle after every call, ASan/UBSan and step budget.', 'design_ref': '4.10',
            'note': 'sampled histories; gid clause only for fonts without justification passes', 'technique': _T + 'operation histories with per-step invariants'},
}

PROPS['C18'] = {
    'level': 'exploration',
    'batches': [{'mode': 'feat', 'quick': 40000, 'thorough': 1200000, 'chunk': 200}],
    'rule': 'one run = 1..2 faces whose Feat/Sill/name tables are (4 of 5 times) synthesised with bit widths that land on, short of and across 32-bit word boundaries, and a seeded history of '
            '5..60 for_lang/clone/set/get/destroy/label operations checked op by op against an independent reference map, with a full read-back of every feature of every live object after each update; '
            'distinct = distinct plan hash; non-trivial = at least one feature-value operation was judged',
    'require_probes': ['feat:set-accepted', 'feat:set-rejected', 'feat:label-checked', 'feat:clone', 'feat:for_lang'],
    'assumptions': _ASSUME + ['the reference model parses the served Feat/Sill/name bytes with its own code; feature id 1 and cross-face operations are not judged (DESIGN.md 4.9)'],
}
MANIFEST_TEXT['C18'] = {'text': 'Operation histories over feature-value objects checked against an executable reference map (per-object map<feature, uint16>, defaults, Sill overrides, range rule, name-table labels) with full read-back after each update.',
                        'design_ref': '4.9', 'note': 'histories and synthesised tables are sampled; label language fallback is not modelled (one-directional check)', 'technique': _T + 'operation histories vs executable reference model'}
NOT_APPLICABLE.pop('C18')

PROPS['C14'] = {
    'level': 'exploration',
    'batches': [{'mode': 'lz4', 'quick': 3000, 'thorough': 200000, 'chunk': 30}, {'mode': 'lz4c', 'quick': 60000, 'thorough': 6000000, 'chunk': 2000}],
    'rule': 'lz4 (end to end): one run = an Awami font whose Silf and/or Glat is served in the compressed layout produced by a seeded encoder of valid LZ4 encodings (or the shipped encoding), '
            'half of the runs with bit-rot/truncation/torn faults on the compressed bytes or header; loaded faces are compared bit-for-bit (self-report + 3..20 segments) with a twin serving '
            'the reference decoder\'s plaintext; lz4c (component): lz4::decompress on exact-size heap buffers vs the reference decoder; distinct = distinct plan hash; '
            'non-trivial = the compressed face loaded and was compared, or the component call was judged',
    'require_probes': ['lz4:clean-accepted', 'lz4:faulted-rejected', 'lz4:table-compressed', 'lz4c:valid-decoded', 'lz4c:mutated-accepted-agrees'],
    'assumptions': _ASSUME + ['the reference LZ4 block decoder (sim/lz4.cpp, ~25 lines, from the block format definition) is the model; the seeded encoder is validated against it on every block'],
}
MANIFEST_TEXT['C14'] = {'text': 'Storage-format knob (plaintext vs valid LZ4 encodings from a seeded encoder) and storage faults on compressed blocks, end to end through gr_make_face with a plaintext twin, '
                                'plus the decoder driven directly against a reference decoder under ASan on exact-size buffers.',
                        'design_ref': '4.7', 'note': 'only the Awami fonts can carry compressed tables (Silf >= 4.x layout, Glat 3.0); encodings and faults are sampled', 'technique': _T + 'storage-format twin + reference decoder'}
NOT_APPLICABLE.pop('C14')

MODE_FLAVOUR['concneg'] = 'tsan'
PROPS['C09'] = {
    'level': 'exploration',
    'batches': [{'mode': 'concneg', 'quick': 48, 'thorough': 400, 'chunk': 1}, {'mode': 'conc', 'quick': 4000, 'thorough': 400000, 'chunk': 1}],
    'rule': 'one run = one cold preloadAll face (+0..2 shared unhinted fonts) used by 2..4 simulated threads (ucontext fibers registered with ThreadSanitizer through its fiber API and '
            'switched without synchronisation; the seeded scheduler preempts at instrumented basic-block edges: uniform gaps of 3..30000 edges, PCT with 1..4 priority change points, or whole-call bursts), '
            'each running 2..12 jobs (gr_make_seg + full dump + destroy, feature values, labels, queries); oracles: no TSan report, every result equals the sequential twin bit-for-bit, no table callback; '
            'distinct = distinct plan hash (a plan includes the scheduler kind, parameter and seed); non-trivial = more than 2 fiber switches happened; '
            'concneg = the same workload on a lazy face, where TSan must report races (detector liveness)',
    'require_probes': ['conc:negctl-race-reported', 'conc:switches', 'seg:returned'],
    'assumptions': _ASSUME + ['TSan fiber API semantics (no-sync switches leave fibers unordered; fiber creation orders construction before the workers; a finishing worker synchronises with the main fiber)',
                              'sequentially consistent interleavings only; weak-memory effects are not simulated (irrelevant for a data-race-free program)',
                              'TSan keeps 4 accesses per 8-byte shadow cell: a race whose first access was evicted is missed in that schedule'],
    'stub': 'table storage (SimStore), clock (edge counter), thread scheduler (SimSched fibers); no stdio, no allocation-failure injection',
}
MANIFEST_TEXT['C09'] = {'text': 'Seeded schedules of 2..4 simulated threads over one shared cold preloadAll face, preempted at basic-block edges and at every atomic operation of library code, over healthy, damaged-but-stable and synthesised font storage, with ThreadSanitizer as the race oracle (made deterministic by the '
                                'fiber scheduler), sequential-twin result equality, self-consistency queries (a feature looked up by its own id) and callback counters; a lazy-face negative control proves the detector is alive in every batch.',
                        'design_ref': '4.5', 'note': 'schedules are sampled; TSan happens-before race detection over sequentially consistent interleavings', 'technique': 'deterministic simulation: seeded fiber scheduler at edge granularity + ThreadSanitizer fiber API, sequential twin as reference'}
NOT_APPLICABLE.pop('C09')
