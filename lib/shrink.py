"""Replay, classification and minimisation of failing plans (fresh grsim process per candidate)."""
import os, json, re, subprocess, time, tempfile, copy

_ctr = [0]


def _tmp(scratch):
    os.makedirs(scratch, exist_ok=True)
    _ctr[0] += 1
    return os.path.join(scratch, 'cand-%d-%d.json' % (os.getpid(), _ctr[0]))


def classify_sanitizer(err):
    """class string for a sanitizer abort: tool, kind and top library frame (file:line) -- stable under shrinking."""
    tool, kind = 'san', 'unknown'
    m = re.search(r'ERROR: (\w+Sanitizer): ([\w-]+)', err)
    if m:
        tool, kind = m.group(1), m.group(2)
    m2 = re.search(r'(/\S+?):(\d+):\d+: runtime error: (.*)', err)
    if m2 and not m:
        tool = 'UBSan'
        kind = re.sub(r'0x[0-9a-f]+|[-+]?\d+(\.\d+)?(e[-+]?\d+)?', 'N', m2.group(3))[:80].strip().replace(' ', '_')
    frame = None
    for fm in re.finditer(r'#\d+ 0x[0-9a-f]+ in (.+?) (/\S+?):(\d+)', err):
        path = fm.group(2)
        if '/src/' in path or '/include/graphite2' in path:
            if '/verif/sim/' in path:
                continue
            frame = '%s:%s' % (os.path.basename(path), fm.group(3))
            break
    if frame is None and m2:
        frame = '%s:%s' % (os.path.basename(m2.group(1)), m2.group(2))
    if frame is None:
        # only harness frames: machinery bug, keep it visible
        frame = 'no-library-frame'
    return 'san:%s:%s:%s' % (tool, kind, frame)


def replay_file(binary, path, repo, trace=False, timeout=900):
    cmd = [binary, '--replay', path, '--repo', repo]
    if trace:
        cmd.append('--trace')
    try:
        p = subprocess.run(cmd, stdout=subprocess.PIPE, stderr=subprocess.PIPE, text=True, errors='replace', timeout=timeout)
        out, err, rc = p.stdout, p.stderr, p.returncode
    except subprocess.TimeoutExpired:
        return {'cls': 'timeout', 'detail': 'replay exceeded wall clock', 'hash': 'timeout', 'out': '', 'err': '', 'api': ''}
    res = {'cls': None, 'detail': '', 'hash': None, 'out': out, 'err': err, 'api': '', 'rc': rc}
    for line in out.splitlines():
        if line.startswith('RESULT '):
            cls, _, detail = line[7:].partition('|')
            res['cls'] = cls or None
            res['detail'] = detail
        elif line.startswith('HASH '):
            res['hash'] = line.split()[1] + ' ' + line.split()[2]
        elif line.startswith('DEATH '):
            m = re.search(r'api=(\S+) call#(\d+) steps=(\d+)', line)
            if m:
                res['api'] = m.group(1)
                # the step at which a sanitizer aborts may depend on the environment (a stack overflow depends on the stack limit):
                # the gate compares the API call, not the step
                res['hash'] = 'death api=%s call#%s' % (m.group(1), m.group(2))
        elif line.startswith('FATAL budget '):
            m = re.search(r'api=(\S+) call#(\d+) steps=(\d+)', line)
            res['api'] = m.group(1) if m else ''
            res['cls'] = 'budget:' + res['api']
            res['detail'] = line[6:]
            res['hash'] = 'budget ' + (m.group(0) if m else '')
    if rc == 77 or (rc not in (0, 1, 78) and res['cls'] is None):
        res['cls'] = classify_sanitizer(err) if rc == 77 else 'crash:rc=%d' % rc
        first = [l for l in err.splitlines() if 'runtime error' in l or 'ERROR:' in l]
        res['detail'] = (first[0] if first else err[-300:]).strip()[:400]
        if res['hash'] is None:
            res['hash'] = 'death-unknown'
    return res


def replay(binary, plan, scratch, repo, timeout=900):
    path = _tmp(scratch)
    with open(path, 'w') as fh:
        json.dump(plan, fh)
    try:
        return replay_file(binary, path, repo, timeout=timeout)
    finally:
        try:
            os.unlink(path)
        except OSError:
            pass


def context(plan, res):
    fonts, opts, dirs, kinds, faults = [], [], [], [], []
    for op in plan.get('ops', []):
        kinds.append(op['op'])
        if op['op'] == 'make_face':
            fonts.append(op.get('s', ''))
            a = op.get('a', [])
            opts.append('src%d/opt%d/ctor%d' % (a[0] if a else 0, a[2] if len(a) > 2 else 0, a[1] if len(a) > 1 else 0))
            for f in op.get('faults', []):
                faults.append('%s:%s' % (f['kind'], f['tag']))
        if op['op'] in ('make_seg', 'probe_seg'):
            a = op.get('a', [])
            dirs.append(str(a[3] & 7 if len(a) > 3 else 0))
    return 'mode=%s fonts=%s config=%s dirs=%s faults=%s ops=%s | %s' % (plan.get('mode'), ','.join(fonts), ','.join(opts), ','.join(dirs), ','.join(faults) or 'none', ','.join(kinds), res.get('detail', ''))


# ---------------------------------------------------------------- synthesised rule programs (OVR_SILFPROG)
def _prog_decode(a):
    i = 0
    np, nsub, nuser, ij, rtl, flags, nj = a[0:7]; i = 7
    just = a[i:i + 4 * nj]; i += 4 * nj
    nlb = a[i]; i += 1
    passes = []
    for _ in range(np):
        maxloop, nr = a[i], a[i + 1]; i += 2
        pcons = []
        if maxloop & 0x400:             # the pass has a pass constraint: length, bytes
            pl = a[i]; pcons = a[i + 1:i + 1 + pl]; i += 1 + pl
        rules = []
        for _ in range(nr):
            ln = a[i]; i += 1
            match = a[i:i + ln]; i += ln
            cl = a[i]; i += 1
            cons = a[i:i + cl]; i += cl
            al = a[i]; i += 1
            act = a[i:i + al]; i += al
            rules.append([match, cons, act])
        passes.append([maxloop, rules, pcons])
    return [nsub, nuser, ij, rtl, passes, flags, just, nlb]


def _prog_encode(pr):
    nsub, nuser, ij, rtl, passes, flags, just, nlb = pr
    a = [len(passes), min(nsub, len(passes)), nuser, ij, rtl, flags, len(just) // 4] + list(just) + [min(nlb, nsub, len(passes))]
    for maxloop, rules, pcons in passes:
        maxloop = (maxloop & ~0x400) | (0x400 if pcons else 0)
        a += [maxloop, len(rules)]
        if pcons:
            a += [len(pcons)] + list(pcons)
        for match, cons, act in rules:
            a += [len(match)] + list(match) + [len(cons)] + list(cons) + [len(act)] + list(act)
    return a


_PLEN = [0, 1, 1, 2, 2, 4] + [0] * 9 + [0] * 10 + [0, 1, 0, 1, 3, 1, 0, 0, -1, 2, 1, 1, 1, 1, 2, 2, 2, 3, 2, 2, 3, 3, 3, 0, 0, 0, 2, 2, 2, 1, 0, 5, 0, 0, 2, 3, 3, 0, 0, 0, 4, 2]


def _insns(act):
    out, i = [], 0
    while i < len(act):
        op = act[i]
        pl = _PLEN[op] if 0 <= op < len(_PLEN) else 0
        if pl == -1:
            pl = 1 + (act[i + 1] if i + 1 < len(act) else 0)
        out.append(act[i:i + 1 + pl]); i += 1 + pl
    return out


def shrink_programs(plan, fails, t_end):
    """greedy: drop passes, rules, then single instructions of synthesised rule programs"""
    import copy, time
    cur = plan
    for oi, op in enumerate(plan['ops']):
        for fi, f in enumerate(op.get('faults', [])):
            if f['kind'] != 'OVR_SILFPROG':
                continue
            try:
                pr = _prog_decode(f['a'])
            except Exception:
                continue

            def attempt(npr):
                nonlocal cur, pr
                if not npr[4] or any(not p[1] for p in npr[4]):
                    return False
                cand = copy.deepcopy(cur)
                cand['ops'][oi]['faults'][fi]['a'] = _prog_encode(npr)
                if fails(cand):
                    cur, pr = cand, npr
                    return True
                return False
            pi = 0
            while pi < len(pr[4]) and time.time() < t_end:          # drop passes
                npr = copy.deepcopy(pr); del npr[4][pi]
                if pi < npr[7]:
                    npr[7] -= 1
                if pi < npr[0]:
                    npr[0] -= 1
                if not attempt(npr):
                    pi += 1
            for pi in range(len(pr[4])):                             # drop pass constraints and pre-contexts
                if pr[4][pi][2] and time.time() < t_end:
                    npr = copy.deepcopy(pr); npr[4][pi][2] = []
                    attempt(npr)
            for pi in range(len(pr[4])):                             # drop rules
                ri = 0
                while ri < len(pr[4][pi][1]) and time.time() < t_end:
                    npr = copy.deepcopy(pr); del npr[4][pi][1][ri]
                    if not attempt(npr):
                        ri += 1
            for pi in range(len(pr[4])):                             # drop constraints, then single instructions (never NEXT / returns)
                for ri in range(len(pr[4][pi][1])):
                    if pr[4][pi][1][ri][1] and time.time() < t_end:
                        npr = copy.deepcopy(pr); npr[4][pi][1][ri][1] = []
                        attempt(npr)
                    k = 0
                    while time.time() < t_end:
                        ins = _insns(pr[4][pi][1][ri][2])
                        if k >= len(ins):
                            break
                        if ins[k][0] in (25, 27, 48, 49, 50):
                            k += 1; continue
                        npr = copy.deepcopy(pr)
                        npr[4][pi][1][ri][2] = [b for j, x in enumerate(ins) if j != k for b in x]
                        if not attempt(npr):
                            k += 1
    return cur


def _units(plan):
    """removable units: ('op', i) and ('fault', i, j)"""
    u = []
    for i, op in enumerate(plan['ops']):
        u.append(('op', i))
        for j, _ in enumerate(op.get('faults', [])):
            u.append(('fault', i, j))
    return u


def _without(plan, drop):
    q = copy.deepcopy(plan)
    dropops = set(d[1] for d in drop if d[0] == 'op')
    dropf = set((d[1], d[2]) for d in drop if d[0] == 'fault')
    ops = []
    for i, op in enumerate(q['ops']):
        if i in dropops:
            continue
        if 'faults' in op:
            op['faults'] = [f for j, f in enumerate(op['faults']) if (i, j) not in dropf]
            if not op['faults']:
                del op['faults']
        ops.append(op)
    q['ops'] = ops
    return q


def minimise(binary, plan, cls, scratch, repo, budget_s=60):
    t_end = time.time() + budget_s
    tries = [0]

    def fails(p):
        # a candidate that hangs (or merely runs long) must not eat the whole budget: its replay is cut off when the budget is
        # (a violation class 'timeout'/'budget:*' is still recognised: those come from the simulator's step clock, long before this)
        left = t_end - time.time()
        if left <= 0:
            return False
        tries[0] += 1
        return replay(binary, p, scratch, repo, timeout=max(45, min(300, left + 45)))['cls'] == cls

    cur = copy.deepcopy(plan)
    cur.pop('expect', None)
    cur.pop('note', None)
    # 1. ddmin over ops and faults
    n = 2
    while time.time() < t_end:
        units = _units(cur)
        if len(units) <= 1:
            break
        size = max(1, len(units) // n)
        chunks = [units[i:i + size] for i in range(0, len(units), size)]
        reduced = False
        for ch in chunks:
            if time.time() > t_end:
                break
            cand = _without(cur, ch)
            if len(cand['ops']) == 0:
                continue
            if fails(cand):
                cur = cand
                n = max(n - 1, 2)
                reduced = True
                break
        if not reduced:
            if size == 1:
                break
            n = min(len(units), n * 2)
    # 2. text shrinking
    for oi in range(len(cur['ops'])):
        t = cur['ops'][oi].get('text')
        if not t:
            continue
        size = max(1, len(t) // 2)
        while size >= 1 and time.time() < t_end:
            i = 0
            changed = False
            while i < len(cur['ops'][oi]['text']) and time.time() < t_end:
                t = cur['ops'][oi]['text']
                cand = copy.deepcopy(cur)
                cand['ops'][oi]['text'] = t[:i] + t[i + size:]
                if fails(cand):
                    cur = cand
                    changed = True
                else:
                    i += size
            if size == 1 and not changed:
                break
            size = size // 2 if size > 1 else (1 if changed else 0)
    # 3. fault parameter shrinking: drop (offset, value) pairs
    for oi in range(len(cur['ops'])):
        for fi in range(len(cur['ops'][oi].get('faults', []))):
            f = cur['ops'][oi]['faults'][fi]
            if f['kind'] in ('BITROT', 'SETBYTES', 'CODEROT', 'LOOPROT', 'REFETCH_DIFFERS', 'DIR_BITROT') and len(f.get('a', [])) > 2:
                k = 0
                while k + 1 < len(cur['ops'][oi]['faults'][fi]['a']) and time.time() < t_end:
                    cand = copy.deepcopy(cur)
                    a = cand['ops'][oi]['faults'][fi]['a']
                    del a[k:k + 2]
                    if len(a) >= 2 and fails(cand):
                        cur = cand
                    else:
                        k += 2
    # 3b. synthesised rule programs
    cur = shrink_programs(cur, fails, t_end)
    # 4. simplify knobs: options -> 0, source -> store, ctor -> 0 (one at a time)
    for oi in range(len(cur['ops'])):
        op = cur['ops'][oi]
        if op['op'] == 'make_face' and time.time() < t_end:
            for pos in (1, 3, 4, 5, 0, 2):
                if len(op.get('a', [])) > pos and op['a'][pos] != 0:
                    cand = copy.deepcopy(cur)
                    cand['ops'][oi]['a'][pos] = 0
                    if fails(cand):
                        cur = cand
                        op = cur['ops'][oi]
    return cur
