#include "exec.h"
#include "textpool.h"
#include <cmath>
#include <cstddef>

namespace sim {

std::vector<u32> g_default_report_cps;

static bool is_content_kind(const std::string &k) { return k == "BITROT" || k == "TRUNCATE" || k == "TORN" || k == "SETBYTES" || k == "CODEROT" || k == "LOOPROT" || k == "SIZEROT" || k == "REFETCH_DIFFERS"; }
static bool is_file_fn(const std::string &t) { return t == "fopen" || t == "fseek" || t == "ftell" || t == "fread"; }

// a hinted font whose advance callback is a pure function of the glyph id (no state: the library may call it in any order)
static float hinted_advance(const void *h, gr_uint16 gid) { const float ppm = *static_cast<const float *>(h); if (gid % 11u == 7u) return gid % 2u ? -1.0f : -ppm / 3.0f;   /* a hinter that has no answer for some glyphs, every time */ return float((gid * 37u) % 997u) * ppm / 640.0f + ppm / 8.0f; }
static float g_hint_ppm[64]; static unsigned g_hint_next = 0;
gr_font *make_font_maybe_hinted(float ppm, const gr_face *face, bool hinted) {
    if (!hinted) return gr_make_font(ppm, face);
    float *slot = &g_hint_ppm[g_hint_next++ % 64]; *slot = ppm;      // the handle must outlive the font: a small ring of slots does
    gr_font_ops ops = {sizeof(gr_font_ops), hinted_advance, 0};
    return gr_make_font_with_ops(ppm, slot, &ops, face);
}

void quiescence_check(const std::string &prop) {
    if (alloc_live()) violation(prop + ":leak-at-quiescence", strf("%zu library allocation(s) still live after everything was destroyed: %s", alloc_live(), alloc_describe().c_str()));
}

World::~World() {
    destroy_all();
    for (auto &f : faces) {
        if (f.store) { for (auto &l : f.store->live) free(const_cast<void *>(l.first)); delete f.store; }
        if (f.file) { file_unregister(f.file); delete f.file; }
    }
}

int World::pick_face(i64 sel) const {
    std::vector<int> live; for (size_t i = 0; i < faces.size(); ++i) if (faces[i].alive) live.push_back(int(i));
    if (live.empty()) return -1;
    return live[size_t(u64(sel < 0 ? -sel : sel) % live.size())];
}
int World::pick_seg(i64 sel) const {
    std::vector<int> live; for (size_t i = 0; i < segs.size(); ++i) if (segs[i].alive && !segs[i].broken) live.push_back(int(i));
    if (live.empty()) return -1;
    return live[size_t(u64(sel < 0 ? -sel : sel) % live.size())];
}
int World::pick_fval(i64 sel, int face) const {
    if (sel < 0) return -1;
    std::vector<int> live; for (size_t i = 0; i < fvals.size(); ++i) if (fvals[i].alive && (face < 0 || fvals[i].face == face)) live.push_back(int(i));
    if (live.empty()) return -1;
    return live[size_t(u64(sel) % live.size())];
}
int World::pick_font(i64 sel, int face) const {
    if (sel < 0) return -1;
    std::vector<int> live; for (size_t i = 0; i < fonts.size(); ++i) if (fonts[i].alive && fonts[i].face == face) live.push_back(int(i));
    if (live.empty()) return -1;
    return live[size_t(u64(sel) % live.size())];
}

void World::after_call_preload_check(FaceObj &f, const char *what) {
    if (!check_preload_quiet || !f.alive || !f.preload_all) return;
    u64 now = f.file ? f.file->freads : f.store->gets;
    if (now > f.gets_at_ctor) {
        violation("C16:get-after-preload", strf("%llu table request(s) after the preloadAll constructor returned, during %s (font=%s, source=%s)", (unsigned long long)(now - f.gets_at_ctor), what, f.font.c_str(), f.file ? "file" : "callbacks"));
        f.gets_at_ctor = now;
    }
}

// ------------------------------------------------------------------------------------------ faces
OpResult World::op_make_face(const Op &op) {
    OpResult r; r.kind = "face";
    const FontImage *fi = g_corpus.find(op.s);
    if (!fi) { r.kind = "skip"; return r; }
    FaceObj f; f.font = op.s;
    const int source = int(op.arg(0)), ctor = int(op.arg(1)); f.options = unsigned(op.arg(2));
    const bool rel_null = op.arg(3) != 0, short_ops = op.arg(4) != 0;
    f.preload_all = (f.options & 6) == 6;
    f.store = new Store(); f.store->id = int(faces.size()) + 100 * id; f.store->font = op.s; f.store->tables = fi->tables;
    bool any_override = false, any_content = false, any_synth = false;   // synthesised Silf/Feat name only real glyphs: the gid clause stays on
    for (auto &ft : op.faults) if (ft.kind.compare(0, 4, "OVR_") == 0) { if (override_fn) override_fn(*f.store, ft); if (ft.kind != "OVR_SILF" && ft.kind != "OVR_SILFPROG" && ft.kind != "OVR_FEAT") any_override = true; else any_synth = true; }
    for (auto &ft : op.faults) if (ft.kind.compare(0, 4, "OVR_") != 0) { f.faulted = true; if (!is_file_fn(ft.tag) && ft.kind != "FILE_TRUNCATED" && ft.kind != "DIR_BITROT") any_content = true; }
    f.pristine_gids = !f.faulted && !any_override;
    { FontImage tmp; auto sf = f.store->tables.find(mktag("Silf")); if (sf != f.store->tables.end()) tmp.tables[sf->first] = sf->second; f.has_just = font_has_just(tmp); f.has_just_passes = font_has_just_passes(tmp); }
    if (any_override) f.faulted = f.faulted; // overrides are legal storage formats, not faults
    gr_face *face = 0;
    const size_t alloc_before = alloc_live();
    event("make_face", u64(source), u64(f.options), u64(ctor));
    if (source == 1) {
        f.file = new FileImage();
        if (!any_content && !any_override && !any_synth && op.arg(5) == 0) f.file->bytes = fi->file;
        else if (!any_content && op.arg(5) != 0) f.file->bytes = build_sfnt_layout(f.store->tables, u64(op.arg(5)));
        else {
            std::map<u32, Bytes> t = f.store->tables;
            for (auto &ft : op.faults) {
                if (ft.tag.size() != 4 || is_file_fn(ft.tag) || ft.kind.compare(0, 4, "OVR_") == 0) continue;
                u32 tag = mktag(ft.tag.c_str()); auto it = t.find(tag); if (it == t.end()) continue;
                if (ft.nth > 0) continue;       // a file is read once per table: only first-request faults are meaningful
                bool fired = false;
                if (ft.kind == "MISSING" || ft.kind == "NULL_WITH_LEN" || ft.kind == "LEN_UNTOUCHED") { t.erase(it); fired = true; }
                else if (ft.kind == "ZERO_LEN") { it->second.clear(); fired = true; }
                else fired = apply_content_fault(ft, it->second, f.store->tables);
                if (fired) probe(("fault:" + ft.kind).c_str());
            }
            f.file->bytes = build_sfnt(t);
        }
        for (auto &ft : op.faults) {
            if (ft.kind == "FILE_TRUNCATED") { size_t n = size_t(ft.a.empty() ? 0 : ft.a[0]); if (n < f.file->bytes.size()) { f.file->bytes.resize(n); probe("fault:FILE_TRUNCATED"); } }
            else if (ft.kind == "DIR_BITROT") { Bytes dir(f.file->bytes.begin(), f.file->bytes.begin() + std::min<size_t>(f.file->bytes.size(), 12 + 16 * size_t(be16(&f.file->bytes[4])))); if (f.file->bytes.size() >= 12 && apply_content_fault(ft, dir, f.store->tables)) { std::copy(dir.begin(), dir.end(), f.file->bytes.begin()); probe("fault:DIR_BITROT"); } }
            else if (is_file_fn(ft.tag)) f.file->faults.push_back(ft);
        }
        f.path = file_register(f.file);
        {
            API("gr_make_file_face", BUDGET_LOAD);
            if (ctor & 1) face = gr_make_file_face_with_seg_cache(f.path.c_str(), 1000, f.options);
            else face = gr_make_file_face(f.path.c_str(), f.options);
        }
        f.release_null = false;
    } else {
        for (auto &ft : op.faults) if (ft.kind.compare(0, 4, "OVR_") != 0 && !is_file_fn(ft.tag)) f.store->faults.push_back(ft);
        gr_face_ops ops; ops.size = sizeof(gr_face_ops); ops.get_table = store_get_table; ops.release_table = rel_null ? 0 : store_release_table;
        // An older client's ops structure: size says it ends before release_table, and it really does (its own exact-size
        // heap block, so that reading the member that is not there is an out-of-bounds read, not a lucky hit in my struct).
        gr_face_ops *pops = &ops; void *short_block = 0;
        if (short_ops) {
            ops.size = offsetof(gr_face_ops, release_table);
            short_block = malloc(ops.size); memcpy(short_block, &ops, ops.size); pops = static_cast<gr_face_ops *>(short_block);
            f.store->release_forbidden = true;
            probe("load:short-ops-struct");
        }
        f.release_null = rel_null || short_ops || (ctor & 1);
        {
        API("gr_make_face", BUDGET_LOAD);
        switch (ctor & 3) {
        case 0: face = gr_make_face_with_ops(f.store, pops, f.options); break;
        case 1: face = gr_make_face(f.store, store_get_table, f.options); break;
        case 2: face = gr_make_face_with_seg_cache_and_ops(f.store, pops, 1000, f.options); break;
        case 3: face = gr_make_face_with_seg_cache(f.store, store_get_table, 1000, f.options); break;
        }
        }
        free(short_block);
    }
    f.face = face; f.alive = face != 0;
    r.v.push_back(face ? 1 : 0);
    probe(face ? "load:accepted" : "load:rejected");
    if (face && !f.faulted) probe("load:accepted-unfaulted");
    { bool silfprog = false; for (auto &ft : op.faults) if (ft.kind == "OVR_SILF" || ft.kind == "OVR_SILFPROG") silfprog = true; if (silfprog && face) probe("synth:loader-accepted"); }
    if (!face) {
        if (!f.release_null && !f.store->live.empty())
            violation("C16:outstanding-after-failed-ctor", strf("%zu table(s) not released when the constructor returned NULL (first: '%s', font=%s)", f.store->live.size(), tagstr(f.store->live.begin()->second.tag).c_str(), f.font.c_str()));
        if (alloc_live() != alloc_before)
            violation(leak_prop + ":leak-after-failed-ctor", strf("%zd allocation(s) left by a constructor that returned NULL: %s", ssize_t(alloc_live()) - ssize_t(alloc_before), alloc_describe().c_str()));
        if (f.file && f.file->live_handles != 0) violation("C01:file-handle-leak", "FILE left open by a failed gr_make_file_face");
        f.store->face_destroyed = true;
    } else {
        f.gets_at_ctor = f.file ? f.file->freads : f.store->gets;
        API("gr_face_n_fref", BUDGET_SMALL);
        f.nfeat = gr_face_n_fref(face);
    }
    faces.push_back(f);
    return r;
}

void World::destroy_face(int i) {
    FaceObj &f = faces[size_t(i)];
    if (!f.alive) return;
    for (size_t k = 0; k < segs.size(); ++k) if (segs[k].alive && segs[k].face == i) destroy_seg(int(k));
    for (size_t k = 0; k < fonts.size(); ++k) if (fonts[k].alive && fonts[k].face == i) destroy_font(int(k));
    { API("gr_face_destroy", BUDGET_LOAD); gr_face_destroy(f.face); }
    f.alive = false; f.face = 0;
    if (!f.release_null && !f.store->live.empty())
        violation("C16:outstanding-after-destroy", strf("%zu table(s) never released by gr_face_destroy (first: '%s', font=%s)", f.store->live.size(), tagstr(f.store->live.begin()->second.tag).c_str(), f.font.c_str()));
    f.store->face_destroyed = true;
    if (f.file && f.file->live_handles != 0) violation("C01:file-handle-leak", "FILE still open after gr_face_destroy");
}
void World::destroy_font(int i) { FontObj &o = fonts[size_t(i)]; if (!o.alive) return; for (size_t k = 0; k < segs.size(); ++k) if (segs[k].alive && segs[k].font == i) destroy_seg(int(k)); API("gr_font_destroy", BUDGET_SMALL); gr_font_destroy(o.font); o.alive = false; o.font = 0; }
void World::destroy_seg(int i) { SegObj &o = segs[size_t(i)]; if (!o.alive) return; API("gr_seg_destroy", BUDGET_LOAD); gr_seg_destroy(o.seg); o.alive = false; o.seg = 0; }
void World::destroy_fval(int i) { FvalObj &o = fvals[size_t(i)]; if (!o.alive) return; API("gr_featureval_destroy", BUDGET_SMALL); gr_featureval_destroy(o.fv); o.alive = false; o.fv = 0; }

void World::destroy_all() {
    for (size_t k = 0; k < segs.size(); ++k) destroy_seg(int(k));
    for (size_t k = 0; k < fonts.size(); ++k) destroy_font(int(k));
    for (size_t k = 0; k < faces.size(); ++k) destroy_face(int(k));
    for (size_t k = 0; k < fvals.size(); ++k) destroy_fval(int(k));
}

// ------------------------------------------------------------------------------------------ segments
OpResult World::op_make_seg(const Op &op, bool is_probe, bool shared_font) {
    OpResult r; r.kind = "seg";
    int fi = pick_face(op.arg(0)); if (fi < 0) { r.kind = "skip"; return r; }
    FaceObj &f = faces[size_t(fi)];
    int enc = int(op.arg(2)); if (enc != 1 && enc != 2 && enc != 4) enc = 1;
    const int dir = int(op.arg(3)) & 7;
    const u32 script = u32(op.arg(4));
    SegObj s; s.face = fi; s.dir = dir;
    encode_text(op.text, enc, s.text);
    const size_t alloc_before = alloc_live();
    gr_font *font = 0; gr_feature_val *fv = 0; gr_font *tmpfont = 0; gr_feature_val *tmpfv = 0;
    if (is_probe) {
        float ppm = float(op.arg(1)) / 16.0f;
        if (shared_font) { int fo = pick_font(op.arg(1), fi); if (fo >= 0) font = fonts[size_t(fo)].font; }
        else if (op.arg(1) > 0) { bool hinted = (op.arg(1) & (1 << 20)) != 0; ppm = float(op.arg(1) & 0xFFFFF) / 16.0f; API("gr_make_font", BUDGET_SMALL); tmpfont = make_font_maybe_hinted(ppm, f.face, hinted); font = tmpfont; }
        if (op.a.size() > 5) {
            API("featureval", BUDGET_SMALL);
            tmpfv = gr_face_featureval_for_lang(f.face, u32(op.arg(5)));
            for (size_t k = 6; k + 1 < op.a.size() && tmpfv && f.nfeat; k += 2) {
                const gr_feature_ref *fr = gr_face_fref(f.face, gr_uint16(u64(op.a[k]) % f.nfeat));
                if (fr) gr_fref_set_feature_value(fr, gr_uint16(op.a[k + 1]), tmpfv);
            }
            fv = tmpfv;
        }
    } else {
        int fo = pick_font(op.arg(1), fi); if (fo >= 0) { font = fonts[size_t(fo)].font; s.font = fo; }
        int fvi = pick_fval(op.arg(5, -1), fi); if (fvi >= 0 && !fvals[size_t(fvi)].tainted) fv = fvals[size_t(fvi)].fv;
    }
    {
        API("gr_make_seg", budget_seg(s.text.nchars));
        s.seg = gr_make_seg(font, f.face, script, fv, gr_encform(enc), s.text.buf.data(), s.text.nchars, dir);
    }
    probe(s.seg ? "seg:returned" : "seg:null");
    if (s.text.nchars > 65536) probe(s.seg ? "seg:giant-text-returned" : "seg:giant-text-null");
    MonitorFlags mf; mf.gid_clause = f.pristine_gids; mf.c05 = monitor_c05;
    check_segment(s.seg, s.text, f.face, font, mf, s.view);
    if (s.seg && s.view.chain_ok) dump_segment(s.view, f.face, font, dump_attrs, r.v); else r.v.push_back(s.seg ? -2 : -1);
    if (g_run.tracing && s.seg && s.view.chain_ok) {
        std::string l = "SEG slots:";
        for (auto *sl : s.view.slots) { const gr_slot *par = gr_slot_attached_to(sl); l += strf(" [gid%u b%d a%d o%d i%u p%d]", gr_slot_gid(sl), gr_slot_before(sl), gr_slot_after(sl), gr_slot_original(sl), gr_slot_index(sl), par ? int(s.view.ord[par]) : -1); }
        l += " chars:"; for (unsigned i = 0; i < gr_seg_n_cinfo(s.seg); ++i) { const gr_char_info *ci = gr_seg_cinfo(s.seg, i); l += strf(" [U+%04X b%d a%d]", gr_cinfo_unicode_char(ci), gr_cinfo_before(ci), gr_cinfo_after(ci)); }
        g_run.trace.push_back(l);
    }
    if (exercise_segs) seg_exercise(s.seg, s.view, f.face, font);
    after_call_preload_check(f, "gr_make_seg");
    if (is_probe || !s.seg) {
        if (s.seg) { API("gr_seg_destroy", BUDGET_LOAD); gr_seg_destroy(s.seg); }
        if (tmpfv) { API("gr_featureval_destroy", BUDGET_SMALL); gr_featureval_destroy(tmpfv); }
        if (tmpfont) { API("gr_font_destroy", BUDGET_SMALL); gr_font_destroy(tmpfont); }
        if (is_probe && !concurrent && (f.options & 2) && alloc_live() != alloc_before)
            violation(leak_prop + ":segment-leak", strf("%zd allocation(s) left after a segment (and its temporary font/feature values) was destroyed on a preloaded face: %s", ssize_t(alloc_live()) - ssize_t(alloc_before), alloc_describe().c_str()));
        return r;
    }
    s.alive = true;
    if (s.view.chain_ok) {
        s.order = s.view.slots; s.line_starts.assign(1, 0);
        API("seg-gids", BUDGET_LOAD);
        for (auto *sl : s.order) s.gids.push_back(gr_slot_gid(sl));
    } else s.broken = true;
    segs.push_back(s);
    return r;
}

// C19 oracle: every line is a well-formed chain holding the same slots in the same order
void World::check_lines(SegObj &s, const char *after) {
    if (!c19_oracle || s.broken) return;
    API("line-walk", BUDGET_LOAD);
    if (g_run.tracing) {
        std::string l = std::string("LINES after ") + after + ":";
        for (size_t k = 0; k < s.order.size(); ++k) { const gr_slot *sl = s.order[k], *nx = gr_slot_next_in_segment(sl), *pv = gr_slot_prev_in_segment(sl); auto name = [&](const gr_slot *x) { if (!x) return std::string("-"); for (size_t q = 0; q < s.order.size(); ++q) if (s.order[q] == x) return std::to_string(q); return std::string("?"); }; l += strf(" [%zu prev=%s next=%s gid%u]", k, name(pv).c_str(), name(nx).c_str(), gr_slot_gid(sl)); }
        g_run.trace.push_back(l);
    }
    const size_t n = s.order.size();
    for (size_t li = 0; li < s.line_starts.size(); ++li) {
        size_t a = s.line_starts[li], b = li + 1 < s.line_starts.size() ? s.line_starts[li + 1] : n;
        const gr_slot *cur = s.order[a];
        if (gr_slot_prev_in_segment(cur)) { violation("C19:line-first-has-prev", strf("after %s: first slot of line %zu has a predecessor", after, li)); s.broken = true; return; }
        for (size_t k = a; k < b; ++k) {
            if (cur != s.order[k]) { violation("C19:line-order", strf("after %s: line %zu position %zu holds a different slot (lines=%zu, slots=%zu, dir=%d)", after, li, k - a, s.line_starts.size(), n, s.dir)); s.broken = true; return; }
            const gr_slot *nx = gr_slot_next_in_segment(cur);
            if (nx && gr_slot_prev_in_segment(nx) != cur) { violation("C19:prev-not-inverse", strf("after %s: line %zu position %zu: prev(next(s)) != s", after, li, k - a)); s.broken = true; return; }
            cur = nx;
        }
        if (cur) { violation("C19:line-overrun", strf("after %s: line %zu continues past its last slot (lines=%zu, dir=%d)", after, li, s.line_starts.size(), s.dir)); s.broken = true; return; }
    }
    const FaceObj &f = faces[size_t(s.face)];
    const FontImage *fi = g_corpus.find(f.font);
    bool gid_clause = f.pristine_gids && fi && !f.has_just;
    for (size_t k = 0; k < n; ++k) {
        float x = gr_slot_origin_X(s.order[k]), y = gr_slot_origin_Y(s.order[k]);
        if (!std::isfinite(x) || !std::isfinite(y)) { violation("C19:origin-non-finite", strf("after %s: slot %zu origin (%g,%g)", after, k, x, y)); s.broken = true; return; }
        if (gid_clause && gr_slot_gid(s.order[k]) != s.gids[k]) { violation("C19:gid-changed", strf("after %s: slot %zu gid %u -> %u on a font without justification passes", after, k, s.gids[k], gr_slot_gid(s.order[k]))); s.broken = true; return; }
    }
}

// C03/C05 over the later history of a segment: line breaking and justification with a font that has no justification passes
// neither add nor remove slots, so the slot count and the character<->slot indices stay what gr_make_seg produced
void World::recheck_counts(SegObj &s, const char *after) {
    if (s.broken) return;
    const FaceObj &f = faces[size_t(s.face)];
    if (f.has_just_passes || f.faulted) return;
    API("count-recheck", BUDGET_SMALL);
    const unsigned n = gr_seg_n_slots(s.seg);
    if (n != s.order.size()) { violation("C03:count-changed-by-history", strf("after %s: gr_seg_n_slots=%u but the segment has %zu slots (font without justification passes)", after, n, s.order.size())); return; }
    const unsigned nc = gr_seg_n_cinfo(s.seg);
    for (unsigned i = 0; i < nc; ++i) {
        const gr_char_info *ci = gr_seg_cinfo(s.seg, i); if (!ci) { violation("C05:cinfo-null-after-history", strf("after %s: gr_seg_cinfo(%u) is NULL", after, i)); return; }
        int b = gr_cinfo_before(ci), a = gr_cinfo_after(ci);
        if (b < 0 || a < 0 || unsigned(b) >= n || unsigned(a) >= n) { violation("C05:assoc-out-of-range-after-history", strf("after %s: char %u before=%d after=%d, n_slots=%u", after, i, b, a, n)); return; }
    }
    probe("seg:counts-rechecked-after-history");
}

OpResult World::op_linebreak(const Op &op) {
    OpResult r; r.kind = "skip";
    int si = pick_seg(op.arg(0)); if (si < 0) return r;
    SegObj &s = segs[size_t(si)];
    if (s.order.size() < 2) return r;
    size_t ord = size_t(u64(op.arg(1)) % s.order.size());
    if (std::find(s.line_starts.begin(), s.line_starts.end(), ord) != s.line_starts.end()) return r;   // precondition: interior slot
    { API("gr_slot_linebreak_before", BUDGET_SMALL); gr_slot_linebreak_before(const_cast<gr_slot *>(s.order[ord])); }
    s.line_starts.insert(std::upper_bound(s.line_starts.begin(), s.line_starts.end(), ord), ord);
    probe("just:linebreak");
    r.kind = "int"; r.v.push_back(i64(ord));
    check_lines(s, "gr_slot_linebreak_before");
    recheck_counts(s, "gr_slot_linebreak_before");
    return r;
}

OpResult World::op_justify(const Op &op) {
    OpResult r; r.kind = "skip";
    int si = pick_seg(op.arg(0)); if (si < 0) return r;
    SegObj &s = segs[size_t(si)];
    if (s.order.empty()) return r;
    FaceObj &f = faces[size_t(s.face)];
    size_t li = size_t(u64(op.arg(1)) % s.line_starts.size());
    size_t a = s.line_starts[li], b = li + 1 < s.line_starts.size() ? s.line_starts[li + 1] : s.order.size();
    double width;
    i64 w16 = op.arg(2);
    width = double(w16) / 16.0;
    if (w16 <= -1000000) { static const double special[] = {1e30, 3.0e38, 1e37, 2.7e36, 1e-30, 65536.0 * 65536.0 * 65536.0, 4294967296.0, -1e30}; width = special[size_t(u64(-w16) % 8)]; }   // widths a 16.16-style integer cannot express
    int flags = int(op.arg(3)) & 3;
    const gr_slot *pFirst = 0, *pLast = 0;
    size_t len = b - a;
    i64 fs = op.arg(4, -1), ls = op.arg(5, -1);
    size_t fo = 0, lo = len - 1;
    if (fs >= 0) fo = size_t(u64(fs) % len);
    if (ls >= 0) lo = size_t(u64(ls) % len);
    if (fs >= 0 && ls >= 0 && fo > lo) std::swap(fo, lo);
    if (fs >= 0) pFirst = s.order[a + fo];
    if (ls >= 0) pLast = s.order[a + lo];
    if (op.arg(7, 0) && !pLast) pLast = s.order[b - 1];      // knob: always name the line's own last slot
    int fnt = pick_font(op.arg(6, -1), s.face);
    const gr_font *font = fnt >= 0 ? fonts[size_t(fnt)].font : 0;
    float res;
    event("justify", u64(li), u64(w16), u64(flags));
    { API("gr_seg_justify", budget_seg(s.order.size())); res = gr_seg_justify(s.seg, s.order[a], font, width, gr_justFlags(flags), pFirst, pLast); }
    probe("just:justify");
    if (s.line_starts.size() > 1) probe("just:justify-multiline");
    r.kind = "int"; r.v.push_back(fbits(res));
    if (!std::isfinite(res)) violation("C19:width-non-finite", strf("gr_seg_justify returned %g (width=%g flags=%d)", res, width, flags));
    check_lines(s, "gr_seg_justify");
    recheck_counts(s, "gr_seg_justify");
    if (!s.broken && s.line_starts.size() == 1) {   // every accessor again: justify leaves per-slot justification records behind
        SegView v; v.seg = s.seg; v.n_slots = unsigned(s.order.size()); v.slots = s.order; v.chain_ok = true;
        seg_exercise(s.seg, v, f.face, font);
    }
    after_call_preload_check(f, "gr_seg_justify");
    return r;
}

// ------------------------------------------------------------------------------------------ face queries, labels, feature values
OpResult World::op_face_query(const Op &op) {
    OpResult r; r.kind = "skip";
    int fi = pick_face(op.arg(0)); if (fi < 0) return r;
    FaceObj &f = faces[size_t(fi)];
    r.kind = "int";
    int kind = int(op.arg(1)); i64 arg = op.arg(2);
    {
        API("face-query", 200000000ull);
        switch (kind) {
        case 0: r.v.push_back(gr_face_n_glyphs(f.face)); break;
        case 1: r.v.push_back(gr_face_n_fref(f.face)); break;
        case 2: { const gr_feature_ref *fr = gr_face_fref(f.face, gr_uint16(arg)); r.v.push_back(fr ? 1 : 0); if (fr) { r.v.push_back(gr_fref_id(fr)); unsigned nv = gr_fref_n_values(fr); r.v.push_back(nv); for (unsigned k = 0; k <= nv && k < 300; ++k) r.v.push_back(gr_fref_value(fr, gr_uint16(k))); } break; }
        case 3: { const gr_feature_ref *fr = gr_face_find_fref(f.face, u32(arg)); r.v.push_back(fr ? i64(gr_fref_id(fr)) : -1); break; }
        case 4: r.v.push_back(gr_face_n_languages(f.face)); break;
        case 5: { unsigned nl = gr_face_n_languages(f.face); if (nl) r.v.push_back(gr_face_lang_by_index(f.face, gr_uint16(u64(arg) % nl))); break; }
        case 6: { const gr_faceinfo *i = gr_face_info(f.face, u32(arg)); r.v.push_back(i ? 1 : 0); if (i) { r.v.push_back(i->upem); r.v.push_back(i->extra_ascent); r.v.push_back(i->extra_descent); r.v.push_back(i->space_contextuals); r.v.push_back(i->has_bidi_pass); r.v.push_back(i->line_ends); r.v.push_back(i->justifies); } break; }
        case 7: for (u32 cp : op.text) r.v.push_back(gr_face_is_char_supported(f.face, cp, 0)); break;
        case 8: { gr_feature_val *fv = gr_face_featureval_for_lang(f.face, u32(arg)); r.v.push_back(fv ? 1 : 0); if (fv) { for (unsigned k = 0; k < f.nfeat; ++k) { const gr_feature_ref *fr = gr_face_fref(f.face, gr_uint16(k)); if (fr) r.v.push_back(gr_fref_feature_value(fr, fv)); } gr_featureval_destroy(fv); } break; }
        case 10: {   // look a feature up by the id the face itself reports for it: must come back with that id
            unsigned nf = gr_face_n_fref(f.face); if (!nf) break;
            const gr_feature_ref *fr = gr_face_fref(f.face, gr_uint16(u64(arg) % nf)); if (!fr) { r.v.push_back(-1); break; }
            const u32 id = gr_fref_id(fr); if ((id & 0xFF) == 0x20) break;      // ids ending in a space are looked up zero-padded (tag padding rule): not an identity
            const gr_feature_ref *fr2 = gr_face_find_fref(f.face, id);
            r.v.push_back(i64(id)); r.v.push_back(fr2 ? i64(gr_fref_id(fr2)) : -1);
            if (!fr2 || gr_fref_id(fr2) != id) violation(std::string(concurrent ? "C09" : "C18") + ":find-fref-wrong-feature", strf("gr_face_find_fref(0x%08x) returned %s", id, fr2 ? strf("the feature with id 0x%08x", gr_fref_id(fr2)).c_str() : "NULL"));
            probe("feat:find-by-own-id");
            break; }
        default: break;
        }
    }
    if (kind == 9) { r.kind = "report"; face_report(f.face, report_cps.empty() ? g_default_report_cps : report_cps, r.v); }
    after_call_preload_check(f, "a face query");
    return r;
}

OpResult World::op_label(const Op &op) {
    OpResult r; r.kind = "skip";
    int fi = pick_face(op.arg(0)); if (fi < 0) return r;
    FaceObj &f = faces[size_t(fi)];
    if (!f.nfeat) return r;
    r.kind = "label";
    int enc = int(op.arg(3)); if (enc != 1 && enc != 2 && enc != 4) enc = 1;
    {
        API("label", 200000000ull);
        const gr_feature_ref *fr = gr_face_fref(f.face, gr_uint16(u64(op.arg(1)) % f.nfeat));
        gr_uint16 lang = gr_uint16(op.arg(4)); gr_uint32 len = 0xDEAD;
        void *l = 0; i64 setting = op.arg(2, -1);
        if (fr) {
            if (setting < 0) l = gr_fref_label(fr, &lang, gr_encform(enc), &len);
            else { unsigned nv = gr_fref_n_values(fr); if (nv) l = gr_fref_value_label(fr, gr_uint16(u64(setting) % nv), &lang, gr_encform(enc), &len); }
        }
        if (!l) r.v.push_back(-1);
        else {
            r.v.push_back(len); r.v.push_back(lang);
            // read len+1 units: the terminator must be inside the allocation (ASan checks) and be zero
            for (gr_uint32 k = 0; k <= len; ++k) { u32 u = enc == 1 ? ((u8 *)l)[k] : enc == 2 ? ((u16 *)l)[k] : ((u32 *)l)[k]; r.v.push_back(u); }
            gr_label_destroy(l);
        }
    }
    probe("label:query");
    after_call_preload_check(f, "a label query");
    return r;
}

OpResult World::op_fval(const Op &op) {
    OpResult r; r.kind = "skip";
    if (op.kind == "fval_lang") {
        int fi = pick_face(op.arg(0)); if (fi < 0) return r;
        FaceObj &f = faces[size_t(fi)];
        FvalObj o; o.face = fi;
        { API("gr_face_featureval_for_lang", BUDGET_SMALL); o.fv = gr_face_featureval_for_lang(f.face, u32(op.arg(1))); }
        r.kind = "int"; r.v.push_back(o.fv ? 1 : 0);
        if (o.fv) { o.alive = true; fvals.push_back(o); }
        after_call_preload_check(f, "gr_face_featureval_for_lang");
        return r;
    }
    if (op.kind == "fval_clone") {
        FvalObj o; int src = pick_fval(op.arg(0), -1);
        { API("gr_featureval_clone", BUDGET_SMALL); o.fv = gr_featureval_clone(src >= 0 ? fvals[size_t(src)].fv : 0); }
        if (src >= 0) { o.face = fvals[size_t(src)].face; o.tainted = fvals[size_t(src)].tainted; } else { o.face = pick_face(op.arg(1)); }
        r.kind = "int"; r.v.push_back(src); r.v.push_back(o.fv ? 1 : 0);
        if (o.fv) { o.alive = true; fvals.push_back(o); }
        return r;
    }
    int oi = pick_fval(op.arg(0) < 0 ? 0 : op.arg(0), -1); if (oi < 0) return r;
    FvalObj &o = fvals[size_t(oi)];
    if (op.kind == "fval_destroy") { destroy_fval(oi); r.kind = "int"; r.v.push_back(oi); return r; }
    // set/get need a feature ref, i.e. a live face
    int fi = o.face; bool cross = false;
    if (op.arg(3, -1) >= 0) { int other = pick_face(op.arg(3)); if (other >= 0 && other != fi) { fi = other; cross = true; } }
    if (fi < 0 || !faces[size_t(fi)].alive || !faces[size_t(fi)].nfeat) return r;
    FaceObj &f = faces[size_t(fi)];
    API("fval-op", BUDGET_SMALL);
    unsigned fidx = unsigned(u64(op.arg(1)) % f.nfeat);
    const gr_feature_ref *fr = gr_face_fref(f.face, gr_uint16(fidx));
    if (!fr) return r;
    r.kind = "int"; r.v.push_back(oi); r.v.push_back(fidx);
    if (op.kind == "fval_set") { int ok = gr_fref_set_feature_value(fr, gr_uint16(op.arg(2)), o.fv); r.v.push_back(ok); if (cross) o.tainted = true; }
    else r.v.push_back(gr_fref_feature_value(fr, o.fv));
    if (cross) r.v.push_back(-777);
    return r;
}

OpResult World::exec(const Op &op) {
    const std::string &k = op.kind;
    if (k == "make_face") return op_make_face(op);
    if (k == "make_seg") return op_make_seg(op, false);
    if (k == "probe_seg") return op_make_seg(op, true);
    if (k == "job_seg") return op_make_seg(op, true, true);
    if (k == "linebreak") return op_linebreak(op);
    if (k == "justify") return op_justify(op);
    if (k == "face_query") return op_face_query(op);
    if (k == "label") return op_label(op);
    if (k == "fval_lang" || k == "fval_clone" || k == "fval_set" || k == "fval_get" || k == "fval_destroy") return op_fval(op);
    OpResult r; r.kind = "skip";
    if (k == "make_font") {
        int fi = pick_face(op.arg(0)); if (fi < 0) return r;
        FontObj o; o.face = fi; o.ppm = float(op.arg(1)) / 16.0f;
        { API("gr_make_font", BUDGET_SMALL); o.font = make_font_maybe_hinted(o.ppm, faces[size_t(fi)].face, op.arg(2) != 0); }
        r.kind = "int"; r.v.push_back(o.font ? 1 : 0);
        o.pinned = op.s == "probe-font";
        if (o.font) { o.alive = true; fonts.push_back(o); }
        return r;
    }
    if (k == "destroy_seg") { int si = pick_seg(op.arg(0)); if (si < 0) { std::vector<int> live; for (size_t i = 0; i < segs.size(); ++i) if (segs[i].alive) live.push_back(int(i)); if (live.empty()) return r; si = live[size_t(u64(op.arg(0)) % live.size())]; } destroy_seg(si); r.kind = "int"; return r; }
    if (k == "destroy_font") { int fo = -1; std::vector<int> live; for (size_t i = 0; i < fonts.size(); ++i) if (fonts[i].alive && !fonts[i].pinned) live.push_back(int(i)); if (live.empty()) return r; fo = live[size_t(u64(op.arg(0)) % live.size())]; destroy_font(fo); r.kind = "int"; return r; }
    if (k == "destroy_face") { int fi = pick_face(op.arg(0)); if (fi < 0) return r; destroy_face(fi); r.kind = "int"; return r; }
    return r;
}

} // namespace sim
