// The executor: a World of live library objects; every Op of a Plan is interpreted against it.
#pragma once
#include "world.h"
#include "segcheck.h"

namespace sim {

struct FaceObj {
    gr_face *face = 0;
    Store *store = 0;
    FileImage *file = 0;
    std::string path;
    std::string font;
    unsigned options = 0;
    bool preload_all = false;
    bool faulted = false;          // any storage fault or override configured for this face
    bool release_null = false;
    u64 gets_at_ctor = 0;
    bool alive = false;
    bool pristine_gids = false;    // gid clause of C03 applies
    bool has_just_passes = true;   // served Silf has justification passes (they may add or remove slots during gr_seg_justify)
    bool has_just = true;          // served Silf has justification passes / levels / line-end contextuals (C19 gid clause off)
    unsigned nfeat = 0;
};
struct FontObj { gr_font *font = 0; int face = -1; float ppm = 0; bool alive = false; bool pinned = false; };   // pinned: never picked by destroy_font (C08 probe font)
struct SegObj {
    gr_segment *seg = 0; int face = -1; int font = -1; bool alive = false;
    Encoded text; SegView view;
    // C19 bookkeeping
    std::vector<const gr_slot *> order;      // slot order right after creation
    std::vector<unsigned> gids;
    std::vector<size_t> line_starts;         // ordinals (into order) of the first slot of each line, ascending
    bool broken = false;                     // chain oracle failed once: no further ops on this segment
    int dir = 0;
};
struct FvalObj { gr_feature_val *fv = 0; int face = -1; bool alive = false; bool tainted = false; };

struct OpResult {
    std::string kind;          // "skip", "seg", "face", "report", "int", ...
    std::vector<i64> v;        // comparable payload
};

typedef void (*OverrideFn)(Store &st, const Fault &f);   // table-level overrides (storage-format knobs)

struct World {
    int id = 0;
    std::vector<FaceObj> faces;
    std::vector<FontObj> fonts;
    std::vector<SegObj> segs;
    std::vector<FvalObj> fvals;
    std::string leak_prop = "C16";       // property charged for leaks / budget in this mode
    bool dump_attrs = true;
    bool check_preload_quiet = true;     // C16/C09: no get_table after ctor under preloadAll
    bool c19_oracle = true;
    bool monitor_c05 = true;
    bool concurrent = false;            // conc mode: global allocation-count comparisons are meaningless while other fibers run
    bool exercise_segs = false;         // C02: call every accessor with every attribute code
    OverrideFn override_fn = 0;
    std::vector<u32> report_cps;         // code points for face self-reports

    ~World();
    OpResult exec(const Op &op);
    void destroy_all();                  // destroys everything still alive, respecting ownership
    int pick_face(i64 sel) const;
    int pick_seg(i64 sel) const;
    int pick_fval(i64 sel, int face) const;
    int pick_font(i64 sel, int face) const;

    OpResult op_make_face(const Op &op);
    void destroy_face(int i);
    void destroy_font(int i);
    void destroy_seg(int i);
    void destroy_fval(int i);
    OpResult op_make_seg(const Op &op, bool probe, bool shared_font = false);
    OpResult op_linebreak(const Op &op);
    OpResult op_justify(const Op &op);
    OpResult op_face_query(const Op &op);
    OpResult op_label(const Op &op);
    OpResult op_fval(const Op &op);
    void check_lines(SegObj &s, const char *after);
    void recheck_counts(SegObj &s, const char *after);
    void after_call_preload_check(FaceObj &f, const char *what);
};

void face_exercise(World &w, int face, const std::vector<u32> &cps);
void seg_exercise(gr_segment *seg, const SegView &view, const gr_face *face, const gr_font *font);
gr_font *make_font_maybe_hinted(float ppm, const gr_face *face, bool hinted);
void quiescence_check(const std::string &prop);   // SimAlloc set must be empty
extern std::vector<u32> g_default_report_cps;

} // namespace sim
