// Exhaustive query scripts: every gr_face_*/gr_fref_*/gr_featureval_* call on a face (C01) and every
// gr_seg_*/gr_slot_*/gr_cinfo_* call on a segment (C02).
#include "exec.h"

namespace sim {

void face_exercise(World &w, int fi, const std::vector<u32> &cps) {
    FaceObj &f = w.faces[size_t(fi)];
    if (!f.alive) return;
    gr_face *face = f.face;
    {
        API("face-exercise", 3000000000ull);
        volatile i64 sink = 0;
        sink += gr_face_n_glyphs(face);
        unsigned nf = gr_face_n_fref(face);
        static const gr_encform encs[] = {gr_utf8, gr_utf16, gr_utf32};
        static const gr_uint16 langs[] = {0x0409, 0, 0x0809, 0xFFFF, 0x0455};
        for (unsigned i = 0; i <= nf; ++i) {
            const gr_feature_ref *fr = gr_face_fref(face, gr_uint16(i));
            if (!fr) continue;
            u32 id = gr_fref_id(fr); sink += id;
            unsigned nv = gr_fref_n_values(fr);
            for (unsigned k = 0; k <= nv; ++k) sink += gr_fref_value(fr, gr_uint16(k));
            for (int e = 0; e < 3; ++e) for (unsigned l = 0; l < (i < 4 ? 5u : 1u); ++l) {
                gr_uint16 lang = langs[l]; gr_uint32 len = 0;
                void *p = gr_fref_label(fr, &lang, encs[e], &len);
                if (p) { size_t unit = size_t(encs[e]); u32 term = 0; memcpy(&term, (u8 *)p + size_t(len) * unit, unit); sink += term; sink += ((u8 *)p)[0]; }
                gr_label_destroy(p);
                for (unsigned k = 0; k <= nv && k < 4; ++k) { lang = langs[l]; void *q = gr_fref_value_label(fr, gr_uint16(k), &lang, encs[e], &len); if (q) { size_t unit = size_t(encs[e]); u32 term = 0; memcpy(&term, (u8 *)q + size_t(len) * unit, unit); sink += term; } gr_label_destroy(q); }
            }
            if (gr_face_find_fref(face, id) == 0) sink += 1;
        }
        sink += (gr_face_find_fref(face, 0x7A7A7A7A) != 0);
        sink += (gr_face_find_fref(face, 0) != 0);
        sink += (gr_face_find_fref(face, mktag("kdot")) != 0);
        unsigned nl = gr_face_n_languages(face);
        for (unsigned i = 0; i <= nl; ++i) {
            u32 lang = gr_face_lang_by_index(face, gr_uint16(i));
            if (i < 12 || i + 3 > nl) {
                gr_feature_val *fv = gr_face_featureval_for_lang(face, lang);
                gr_feature_val *c = gr_featureval_clone(fv);
                for (unsigned k = 0; k < nf; ++k) {
                    const gr_feature_ref *fr = gr_face_fref(face, gr_uint16(k));
                    if (!fr) continue;
                    sink += gr_fref_feature_value(fr, fv);
                    if (c) { sink += gr_fref_set_feature_value(fr, gr_uint16(k * 7 + i), c); sink += gr_fref_feature_value(fr, c); sink += gr_fref_set_feature_value(fr, 65535, c); sink += gr_fref_set_feature_value(fr, 0, c); }
                }
                gr_featureval_destroy(c); gr_featureval_destroy(fv);
            }
        }
        static const u32 junk[] = {0, 0x20202020, 0x656E2020, 0x656E0000, 0xFFFFFFFF, 0x7A7A7A00};
        for (u32 j : junk) { gr_feature_val *fv = gr_face_featureval_for_lang(face, j); for (unsigned k = 0; k < nf && k < 8; ++k) { const gr_feature_ref *fr = gr_face_fref(face, gr_uint16(k)); if (fr) sink += gr_fref_feature_value(fr, fv); } gr_featureval_destroy(fv); }
        {   // an empty feature-value object (clone of NULL) is a legal destination for set/get on every feature
            gr_feature_val *z = gr_featureval_clone(0);
            for (unsigned k = 0; k < nf && z; ++k) { const gr_feature_ref *fr = gr_face_fref(face, gr_uint16(k < 6 ? k : nf - 1 - (k % 3))); if (!fr) continue; sink += gr_fref_feature_value(fr, z); sink += gr_fref_set_feature_value(fr, gr_uint16(k & 1), z); sink += gr_fref_feature_value(fr, z); if (k > 8) break; }
            gr_feature_val *z2 = gr_featureval_clone(z); gr_featureval_destroy(z); gr_featureval_destroy(z2);
        }
        static const u32 scripts[] = {0, 0x6C61746E, 0x61726162, 0xFFFFFFFF};
        for (u32 s : scripts) { const gr_faceinfo *i = gr_face_info(face, s); if (i) sink += i->upem + i->extra_ascent + i->space_contextuals + i->justifies; }
        for (u32 cp : cps) sink += gr_face_is_char_supported(face, cp, 0);
        for (float ppm : {12.0f, 0.5f, 4096.0f}) { gr_font *fo = gr_make_font(ppm, face); gr_font_destroy(fo); }
        (void)sink;
    }
    probe("load:exercised");
    w.after_call_preload_check(f, "the face query script");
}

void seg_exercise(gr_segment *seg, const SegView &view, const gr_face *face, const gr_font *font) {
    if (!seg || !view.chain_ok) return;
    API("seg-exercise", 100000000ull + 400000ull * (view.n_slots + 1));
    volatile i64 sink = 0;
    static const gr_uint8 subs[] = {0, 1, 2, 3, 4, 7, 15, 16, 31, 63, 64, 127, 128, 255};
    unsigned nslots = view.n_slots;
    unsigned step = nslots > 40 ? nslots / 40 : 1;
    for (unsigned i = 0; i < nslots; i += (i < 8 || i + 8 >= nslots) ? 1 : step) {
        const gr_slot *s = view.slots[i];
        for (int code = 0; code <= int(gr_slatNoEffect) + 2; ++code) {
            sink += gr_slot_attr(s, seg, gr_attrCode(code), 0);
            if (code == gr_slatUserDefn || code == gr_slatUserDefnV1 || (code >= gr_slatJStretch && code <= gr_slatJStretch + 20)) for (gr_uint8 sb : subs) sink += gr_slot_attr(s, seg, gr_attrCode(code), sb);
        }
        sink += gr_slot_attr(s, seg, gr_attrCode(127), 3);
        sink += gr_slot_can_insert_before(s) + gr_slot_original(s) + gr_slot_before(s) + gr_slot_after(s);
        sink += gr_slot_advance_X(s, face, font) > 0.f;
        sink += gr_slot_advance_Y(s, 0, 0) > 0.f;
    }
    sink += gr_seg_n_cinfo(seg);
    (void)sink;
    probe("seg:exercised");
}

} // namespace sim
