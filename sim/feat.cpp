// C18: feature values as an isolated, range-checked map with font defaults.
// Synthesised Feat/Sill/name tables (storage-format override OVR_FEAT) + an independent reference model.
#include "modes.h"

namespace sim {

// ------------------------------------------------------------------------------------------ synthesiser
static void put_utf16be(Bytes &b, const std::vector<u32> &cps) {
    for (u32 c : cps) { if (c == 0x110000) { put16(b, 0xD83D); continue; } if (c < 0x10000) put16(b, c); else { put16(b, 0xD800 - (0x10000 >> 10) + (c >> 10)); put16(b, 0xDC00 + (c & 0x3FF)); } }
}

void feat_override(Store &st, const Fault &f) {
    if (f.kind != "OVR_FEAT") return;
    Rng r(u64(f.a.empty() ? 1 : f.a[0]));
    unsigned orig = 0;
    auto it = st.tables.find(mktag("Feat"));
    if (it != st.tables.end() && it->second.size() >= 6) orig = be16(&it->second[4]);
    unsigned n = orig + (r.chance(1, 3) ? 0 : r.below(24));
    if (n == 0) n = 1 + r.below(8);
    if (n > 80) n = 80;
    const bool many = r.chance(1, 40);       // more feature bits than 256 words: 130..400 features, most of them without settings (a word each)
    if (many) n = 130 + r.below(271);
    struct SF { u32 id; u16 flags, nameid; std::vector<std::pair<int, u16>> settings; };
    std::vector<SF> feats;
    std::set<u32> ids;
    u16 next_name = 256;
    // bit-width plan: stress 32-bit word boundaries
    unsigned pattern = r.below(4);
    unsigned bitpos = 0;
    for (unsigned i = 0; i < n; ++i) {
        SF s; s.flags = r.chance(1, 14) ? 0x0800 : 0; s.nameid = next_name++;
        for (;;) { u32 id = r.chance(1, 2) ? ((0x61 + r.below(26)) << 24 | (0x61 + r.below(26)) << 16 | (0x61 + r.below(26)) << 8 | (0x30 + r.below(10))) : (u32(r.next()) | 0x100); if ((id & 0xFF) == 0x20 || id == 1 || id == 0 || ids.count(id)) continue; ids.insert(id); s.id = id; break; }
        unsigned w;
        if (pattern == 0) w = 1 + r.below(16);
        else if (pattern == 1) { unsigned left = 32 - bitpos % 32; w = r.chance(1, 2) ? (left <= 16 ? left : 1 + r.below(16)) : (left < 16 ? left + 1 : 1 + r.below(16)); if (w > 16) w = 16; if (w == 0) w = 1; }
        else if (pattern == 2) w = r.chance(1, 2) ? 16 : 15;
        else w = 1 + r.below(5);
        bool nosettings = many ? r.chance(9, 10) : r.chance(1, 9);
        if (!nosettings) {
            u32 maxv = w >= 16 ? (r.chance(1, 2) ? 0xFFFF : 0x8000 + r.below(0x7FFF)) : ((1u << (w - 1)) + r.below(1u << (w - 1)));
            const bool all_zero = r.chance(1, 10);     // every defined setting has the value 0 (a lone "Default"): the largest setting is 0, not "none defined"
            if (all_zero) { maxv = 0; w = 0; }
            unsigned ns = 1 + r.below(all_zero ? 2 : 5);
            unsigned maxpos = r.below(ns);
            for (unsigned k = 0; k < ns; ++k) { u32 v = k == maxpos ? maxv : r.below(maxv + 1); s.settings.push_back(std::make_pair(int(v), next_name++)); }
            bitpos += w;
        } else bitpos = (bitpos + 63) / 32 * 32;
        feats.push_back(s);
    }
    // Feat v2
    Bytes feat; put32(feat, 0x00020000); put16(feat, n); put16(feat, 0); put32(feat, 0);
    size_t soff = 12 + 16 * size_t(n);
    for (auto &s : feats) { put32(feat, s.id); put16(feat, u32(s.settings.size())); put16(feat, 0); put32(feat, u32(soff)); put16(feat, s.flags); put16(feat, s.nameid); soff += 4 * s.settings.size(); }
    for (auto &s : feats) for (auto &p : s.settings) { put16(feat, u32(p.first) & 0xFFFF); put16(feat, p.second); }
    st.tables[mktag("Feat")] = feat;
    // Sill
    unsigned nl = r.below(7);
    static const u32 langs[] = {0x656E0000, 0x76696500, 0x61626364, 0x6D790000, 0x7A680000, 0x66720000, 0x61000000, 0x64650000};
    std::vector<u32> chosen; for (unsigned i = 0; i < nl; ++i) chosen.push_back(langs[(i + r.below(3)) % 8]);
    Bytes sill; put32(sill, 0x00010000); put16(sill, nl); put16(sill, 0); put16(sill, 0); put16(sill, 0);
    std::vector<std::vector<std::pair<u32, u16>>> lsets(nl);
    size_t off = 12 + 8 * size_t(nl + 1);
    for (unsigned i = 0; i < nl; ++i) {
        unsigned ns = r.below(5);
        for (unsigned k = 0; k < ns; ++k) {
            u32 fid; u16 val;
            if (r.chance(1, 6)) { fid = 0x7A7A7A7A; val = u16(r.below(4)); }
            else { const SF &s = feats[r.below(n)]; fid = s.id; if (s.settings.empty()) val = u16(r.next()); else if (r.chance(1, 5)) val = u16(r.next()); else val = u16(s.settings[r.below(u32(s.settings.size()))].first); }
            lsets[i].push_back(std::make_pair(fid, val));
        }
        put32(sill, chosen[i]); put16(sill, ns); put16(sill, u32(off)); off += 8 * ns;
    }
    put32(sill, 0x80808080); put16(sill, 0); put16(sill, u32(off));     // terminating entry as the compiler writes it
    for (unsigned i = 0; i < nl; ++i) for (auto &p : lsets[i]) { put32(sill, p.first); put16(sill, p.second); put16(sill, 0); }
    st.tables[mktag("Sill")] = sill;
    // name: platform 3 / encoding 1 records for a few languages
    static const u16 nlangs[] = {0x0409, 0x0809, 0x040C};
    struct NR { u16 lang, nameid; std::vector<u32> text; };
    std::vector<NR> recs;
    unsigned nlang = 1 + r.below(3);
    for (unsigned l = 0; l < nlang; ++l) for (u16 id = 256; id < next_name; ++id) {
        if (l > 0 && r.chance(1, 2)) continue;
        if (l == 0 && r.chance(1, 25)) continue;      // some labels missing
        NR nr; nr.lang = nlangs[l]; nr.nameid = id;
        unsigned len = r.below(12);
        for (unsigned k = 0; k < len; ++k) { u32 c = r.below(10); nr.text.push_back(c < 6 ? 0x41 + r.below(58) : c < 8 ? 0xC0 + r.below(0x500) : c < 9 ? 0x4E00 + r.below(0x1000) : 0x10000 + r.below(0xFFFFF)); }
        if (r.chance(1, 25)) nr.text.push_back(0x110000);      // marker: a trailing lone lead surrogate (the label must come back NULL)
        recs.push_back(nr);
    }
    Bytes name, strings; put16(name, 0); put16(name, u32(recs.size())); put16(name, u32(6 + 12 * recs.size()));
    for (auto &nr : recs) { size_t so = strings.size(); put_utf16be(strings, nr.text); put16(name, 3); put16(name, 1); put16(name, nr.lang); put16(name, nr.nameid); put16(name, u32(strings.size() - so)); put16(name, u32(so)); }
    name.insert(name.end(), strings.begin(), strings.end());
    name.push_back(0); name.push_back(0);
    st.tables[mktag("name")] = name;
}

// ------------------------------------------------------------------------------------------ reference model (independent parse of the served bytes)
struct MFeat { u32 id = 0; u16 nameid = 0, flags = 0; std::vector<std::pair<u16, u16>> settings; u32 maxv = 0; bool nosettings = false; u16 def = 0; };
struct Model {
    bool ok = false;
    std::vector<MFeat> feats; std::vector<int> visible;   // visible[i] = index into feats of the i-th non-hidden feature
    std::vector<std::pair<u32, std::vector<std::pair<u32, u16>>>> langs;
    struct NameRec { u16 lang, nameid; std::vector<u16> units; };
    std::vector<NameRec> names;
};
typedef std::vector<i64> MVals;    // per feature value, -1 = unknown (not compared)

static bool model_parse(const Store &st, Model &m) {
    auto fi = st.tables.find(mktag("Feat"));
    if (fi == st.tables.end()) { m.ok = true; return true; }
    const Bytes &t = fi->second;
    if (t.size() < 12) return false;
    u32 ver = be32(&t[0]); unsigned n = be16(&t[4]);
    size_t p = 12;
    for (unsigned i = 0; i < n; ++i) {
        MFeat f; unsigned ns; size_t so;
        if (ver < 0x00020000) { if (p + 12 > t.size()) return false; f.id = be16(&t[p]); ns = be16(&t[p + 2]); so = be32(&t[p + 4]); f.flags = be16(&t[p + 8]); f.nameid = be16(&t[p + 10]); p += 12; }
        else { if (p + 16 > t.size()) return false; f.id = be32(&t[p]); ns = be16(&t[p + 4]); so = be32(&t[p + 8]); f.flags = be16(&t[p + 12]); f.nameid = be16(&t[p + 14]); p += 16; }
        if (so + 4 * size_t(ns) > t.size()) return false;
        for (unsigned k = 0; k < ns; ++k) { u16 v = be16(&t[so + 4 * k]); f.settings.push_back(std::make_pair(v, be16(&t[so + 4 * k + 2]))); if (v > f.maxv) f.maxv = v; }
        f.nosettings = ns == 0; if (ns) f.def = f.settings[0].first; else f.maxv = 0xFFFFFFFFu;
        m.feats.push_back(f);
    }
    for (size_t i = 0; i < m.feats.size(); ++i) if (!(m.feats[i].flags & 0x0800)) m.visible.push_back(int(i));
    auto si = st.tables.find(mktag("Sill"));
    if (si != st.tables.end() && si->second.size() >= 12 && !m.feats.empty()) {
        const Bytes &s = si->second; unsigned nl = be16(&s[4]);
        if (be32(&s[0]) == 0x00010000 && s.size() >= 12 + 8 * size_t(nl)) for (unsigned i = 0; i < nl; ++i) {
            u32 lang = be32(&s[12 + 8 * i]); unsigned ns = be16(&s[12 + 8 * i + 4]); size_t off = be16(&s[12 + 8 * i + 6]);
            std::vector<std::pair<u32, u16>> v;
            for (unsigned k = 0; k < ns && off + 8 * size_t(k) + 8 <= s.size(); ++k) v.push_back(std::make_pair(be32(&s[off + 8 * k]), be16(&s[off + 8 * k + 4])));
            m.langs.push_back(std::make_pair(lang, v));
        }
    }
    auto ni = st.tables.find(mktag("name"));
    if (ni != st.tables.end() && ni->second.size() >= 6) {
        const Bytes &b = ni->second; unsigned cnt = be16(&b[2]); size_t so = be16(&b[4]);
        for (unsigned i = 0; i < cnt && 6 + 12 * size_t(i) + 12 <= b.size(); ++i) {
            const u8 *e = &b[6 + 12 * i];
            if (be16(e) != 3 || be16(e + 2) != 1) continue;
            Model::NameRec nr; nr.lang = be16(e + 4); nr.nameid = be16(e + 6); size_t len = be16(e + 8), off = be16(e + 10);
            if (so + off + len > b.size()) continue;
            for (size_t k = 0; k + 1 < len + 1 && k + 1 <= len; k += 2) nr.units.push_back(be16(&b[so + off + k]));
            m.names.push_back(nr);
        }
    }
    m.ok = true;
    return true;
}

static u32 zeropad_model(u32 x) { for (int sh = 0; sh < 32; sh += 8) { if (((x >> sh) & 0xFF) == 0x20) x &= ~(0xFFu << sh); else break; } return x; }

static MVals model_defaults(const Model &m) { MVals v; for (auto &f : m.feats) v.push_back(f.def); return v; }
static MVals model_for_lang(const Model &m, u32 lang) {
    MVals v = model_defaults(m);
    lang = zeropad_model(lang);
    if (!lang) return v;
    for (auto &l : m.langs) {
        if (l.first != lang) continue;
        for (auto &s : l.second) {
            // first feature with that id (duplicate ids are never synthesised)
            for (size_t i = 0; i < m.feats.size(); ++i) if (m.feats[i].id == s.first) { if (s.second <= m.feats[i].maxv) v[i] = s.second; break; }
        }
        for (size_t i = 0; i < m.feats.size(); ++i) if (m.feats[i].id == 1) { v[i] = -1; break; }     // language id feature: not modelled
        break;
    }
    return v;
}

// convert UTF-16 units to the requested encoding (independent of the library's codec)
static std::vector<u32> units_to_enc(const std::vector<u16> &u, int enc) {
    std::vector<u32> cps, out;
    for (size_t i = 0; i < u.size(); ++i) { u32 c = u[i]; if (c >= 0xD800 && c <= 0xDBFF && i + 1 < u.size() && u[i + 1] >= 0xDC00 && u[i + 1] <= 0xDFFF) { c = 0x10000 + ((c - 0xD800) << 10) + (u[i + 1] - 0xDC00); ++i; } cps.push_back(c); }
    for (u32 c : cps) {
        if (enc == 4) out.push_back(c);
        else if (enc == 2) { if (c < 0x10000) out.push_back(c); else { out.push_back(0xD800 + ((c - 0x10000) >> 10)); out.push_back(0xDC00 + ((c - 0x10000) & 0x3FF)); } }
        else { if (c < 0x80) out.push_back(c); else if (c < 0x800) { out.push_back(0xC0 | (c >> 6)); out.push_back(0x80 | (c & 0x3F)); } else if (c < 0x10000) { out.push_back(0xE0 | (c >> 12)); out.push_back(0x80 | ((c >> 6) & 0x3F)); out.push_back(0x80 | (c & 0x3F)); } else { out.push_back(0xF0 | (c >> 18)); out.push_back(0x80 | ((c >> 12) & 0x3F)); out.push_back(0x80 | ((c >> 6) & 0x3F)); out.push_back(0x80 | (c & 0x3F)); } }
    }
    return out;
}

// ------------------------------------------------------------------------------------------ generator
Plan gen_feat(u64 seed) {
    Rng r(seed); Plan p; p.mode = "feat"; p.seed = seed;
    static const char *bases[] = {"Padauk", "charis_r_gr", "Scheherazadegr", "MagyarLinLibertineG", "general", "grtest1gr", "Charis5_eursub", "charis_fast", "Annapurnarc2", "PigLatinBenchmark_v3", "small", "underflow"};
    std::string font = bases[r.below(12)];
    unsigned nfaces = r.chance(1, 5) ? 2 : 1;
    for (unsigned i = 0; i < nfaces; ++i) {
        Op mf; mf.kind = "make_face"; mf.s = i ? std::string(bases[r.below(12)]) : font; mf.a = {0, 0, i64(r.below(8)), 0, 0};
        if (r.chance(4, 5)) { Fault f; f.kind = "OVR_FEAT"; f.tag = "Feat"; f.a = {i64(r.next() >> 8)}; mf.faults.push_back(f); }
        p.ops.push_back(mf);
    }
    unsigned n = 5 + r.below(g_tier ? 56 : 30);
    static const u32 qlangs[] = {0, 0x656E0000, 0x656E2020, 0x76696500, 0x76696520, 0x61626364, 0x6D790000, 0x6D792020, 0x7A680000, 0x66720000, 0x61000000, 0x61202020, 0x64650000, 0x20202020, 0x7A7A7A7A, 0x656E6700};
    for (unsigned i = 0; i < n; ++i) {
        u32 k = r.below(100); i64 face = i64(r.below(nfaces));
        Op o;
        if (k < 14 || i == 0) { o.kind = "fval_lang"; o.a = {face, i64(qlangs[r.below(16)])}; }
        else if (k < 22) { o.kind = "fval_clone"; o.a = {r.chance(1, nfaces > 1 ? 3 : 8) ? -1 : i64(r.below(8)), face}; }
        else if (k < 62) {
            o.kind = "fval_set"; i64 v; u32 c = r.below(10);
            v = c < 3 ? i64(r.below(4)) : c < 5 ? i64(r.below(70)) : c < 6 ? 65535 : c < 7 ? 0 : c < 8 ? i64(1u << r.below(16)) : i64(r.below(65536));
            o.a = {i64(r.below(8)), i64(r.below(96)), v, (nfaces > 1 && r.chance(1, 4)) ? i64(r.below(nfaces)) : -1};
        }
        else if (k < 76) { o.kind = "fval_get"; o.a = {i64(r.below(8)), i64(r.below(96))}; }
        else if (k < 82) { o.kind = "fval_destroy"; o.a = {i64(r.below(8))}; }
        else { o.kind = "label"; static const i64 ll[] = {0x0409, 0x0809, 0x040C, 0, 0x0C09, 0xFFFF}; o.a = {face, i64(r.below(96)), r.chance(1, 2) ? -1 : i64(r.below(6)), i64(1 << r.below(3)), ll[r.below(6)]}; }
        p.ops.push_back(o);
    }
    return p;
}

// ------------------------------------------------------------------------------------------ runner
void run_feat(const Plan &p) {
    {
        World w; w.id = 1; w.leak_prop = "C18"; w.override_fn = all_overrides; w.check_preload_quiet = true;
        std::vector<Model> models;             // per face
        std::vector<MVals> mvals;              // per World::fvals entry
        std::vector<int> mface;                // model face of each fval (-1: created by clone(NULL), not yet bound)
        std::vector<char> judged;              // false once touched by a cross-face op
        auto readback = [&](const char *when) {
            API("feat-readback", 400000000ull);
            for (size_t oi = 0; oi < w.fvals.size() && !violated(); ++oi) {
                FvalObj &o = w.fvals[oi];
                if (!o.alive || !judged[oi]) continue;
                int fi = mface[oi] >= 0 ? mface[oi] : o.face;
                if (fi < 0 || !w.faces[size_t(fi)].alive || !models[size_t(fi)].ok) continue;
                const Model &m = models[size_t(fi)];
                std::vector<int> vis_of(m.feats.size(), -1);
                for (size_t v = 0; v < m.visible.size(); ++v) vis_of[size_t(m.visible[v])] = int(v);
                for (size_t k = 0; k < m.feats.size(); ++k) {
                    // visible features are addressed by index; hidden ones only by id, and only when the id survives
                    // the API's trailing-space stripping (an id ending in 0x20 cannot be addressed by id: not judged)
                    const gr_feature_ref *fr;
                    if (vis_of[k] >= 0) fr = gr_face_fref(w.faces[size_t(fi)].face, gr_uint16(vis_of[k]));
                    else { if (m.feats[k].id != zeropad_model(m.feats[k].id)) continue; fr = gr_face_find_fref(w.faces[size_t(fi)].face, m.feats[k].id); }
                    if (!fr) { violation("C18:find-fref", strf("no feature ref for feature #%zu (id 0x%08x) which the Feat table defines (%s)", k, m.feats[k].id, when)); return; }
                    if (gr_fref_id(fr) != m.feats[k].id) { violation("C18:fref-id", strf("feature #%zu reports id 0x%08x, the Feat table says 0x%08x", k, gr_fref_id(fr), m.feats[k].id)); return; }
                    if (mvals[oi][k] < 0) continue;
                    unsigned got = gr_fref_feature_value(fr, o.fv);
                    i64 want = mface[oi] < 0 ? 0 : mvals[oi][k];
                    if (i64(got) != want) { violation("C18:isolation", strf("%s: object #%zu feature #%zu (id 0x%08x) reads %u, the model says %lld", when, oi, k, m.feats[k].id, got, (long long)want)); return; }
                }
            }
        };
        for (auto &op : p.ops) {
            size_t nf_before = w.fvals.size();
            // capture what the op will address before executing (pick_* is deterministic)
            int src = -1, target = -1;
            if (op.kind == "fval_clone") src = w.pick_fval(op.arg(0), -1);
            if (op.kind == "fval_set" || op.kind == "fval_get" || op.kind == "fval_destroy") target = w.pick_fval(op.arg(0) < 0 ? 0 : op.arg(0), -1);
            OpResult r = exec_ext(w, op);
            if (op.kind == "make_face") {
                Model m; const FaceObj &f = w.faces.back();
                if (f.alive) { if (!model_parse(*f.store, m)) m.ok = false; if (m.ok && m.visible.size() != f.nfeat) { violation("C18:feature-count", strf("gr_face_n_fref=%u, the Feat table defines %zu visible features", f.nfeat, m.visible.size())); } probe("feat:face-loaded"); }
                else probe("feat:face-rejected");
                models.push_back(m);
                continue;
            }
            if (r.kind == "skip" || violated()) { if (violated()) break; continue; }
            g_nontrivial = true;
            if (op.kind == "fval_lang") {
                if (w.fvals.size() > nf_before) {
                    int fi = w.fvals.back().face; const Model &m = models[size_t(fi)];
                    mvals.push_back(m.ok ? model_for_lang(m, u32(op.arg(1))) : MVals()); mface.push_back(fi); judged.push_back(m.ok);
                    probe("feat:for_lang");
                }
            } else if (op.kind == "fval_clone") {
                if (w.fvals.size() > nf_before) {
                    if (src >= 0) { mvals.push_back(mvals[size_t(src)]); mface.push_back(mface[size_t(src)]); judged.push_back(judged[size_t(src)]); }
                    else { int fi = w.fvals.back().face; const Model *m = fi >= 0 ? &models[size_t(fi)] : 0; mvals.push_back(MVals(m ? m->feats.size() : 0, 0)); mface.push_back(-1); judged.push_back(m && m->ok); }
                    probe("feat:clone");
                }
            } else if (op.kind == "fval_set" || op.kind == "fval_get") {
                size_t oi = size_t(r.v[0]); unsigned fidx = unsigned(r.v[1]); i64 res = r.v[2];
                bool cross = r.v.size() > 3;
                if (cross && op.kind == "fval_set" && mface[oi] < 0 && judged[oi]) {
                    // an object from gr_featureval_clone(NULL) that no set has succeeded on yet belongs to no face: a set through
                    // any face is an ordinary set (this is how "after failure fv is unchanged" becomes observable for such objects)
                    int other = w.pick_face(op.arg(3));
                    if (other >= 0 && models[size_t(other)].ok && fidx < models[size_t(other)].visible.size()) {
                        const Model &mo = models[size_t(other)]; size_t k2 = size_t(mo.visible[fidx]); const MFeat &f2 = mo.feats[k2];
                        u32 v = u32(op.arg(2)) & 0xFFFF; bool want_ok = f2.nosettings || v <= f2.maxv;
                        probe("feat:unbound-set-through-other-face");
                        if ((res != 0) != want_ok) { violation("C18:set-result", strf("set(feature #%u id 0x%08x max %u, value %u) on a feature-value object that belongs to no face yet returned %lld, expected %s", fidx, f2.id, f2.maxv, v, (long long)res, want_ok ? "success" : "failure")); break; }
                        if (want_ok) { mface[oi] = other; mvals[oi] = MVals(mo.feats.size(), 0); mvals[oi][k2] = v; w.fvals[oi].face = other; }
                        w.fvals[oi].tainted = false;
                        continue;
                    }
                }
                if (cross) { judged[oi] = false; probe("feat:cross-face"); continue; }
                if (!judged[oi]) continue;
                int fi = w.fvals[oi].face; const Model &m = models[size_t(fi)];
                if (!m.ok || fidx >= m.visible.size()) continue;
                size_t k = size_t(m.visible[fidx]); const MFeat &f = m.feats[k];
                if (op.kind == "fval_set") {
                    u32 v = u32(op.arg(2)) & 0xFFFF;
                    bool want_ok = f.nosettings || v <= f.maxv;
                    probe(want_ok ? "feat:set-accepted" : "feat:set-rejected");
                    if ((res != 0) != want_ok) { violation("C18:set-result", strf("set(feature #%u id 0x%08x max %u, value %u) returned %lld, expected %s", fidx, f.id, f.maxv, v, (long long)res, want_ok ? "success" : "failure")); break; }
                    if (want_ok) { if (mface[oi] < 0) { mface[oi] = fi; } mvals[oi][k] = v; }
                } else {
                    i64 want = mface[oi] < 0 ? 0 : mvals[oi][k];
                    if (want >= 0 && res != want) { violation("C18:get-result", strf("get(feature #%u id 0x%08x) returned %lld, the model says %lld", fidx, f.id, (long long)res, (long long)want)); break; }
                }
            } else if (op.kind == "label") {
                int fi = w.pick_face(op.arg(0)); if (fi < 0) continue;
                {   // the same label in the other two encodings: all NULL or all the same text and language
                    int e0 = int(op.arg(3)); if (e0 != 1 && e0 != 2 && e0 != 4) e0 = 1;
                    auto cps_of = [](const OpResult &x, int enc) { std::vector<u32> out; if (x.v.empty() || x.v[0] < 0) return out; Bytes b; for (size_t k = 2; k < x.v.size(); ++k) { u32 u = u32(x.v[k]); if (enc == 1) b.push_back(u8(u)); else if (enc == 2) { u16 v = u16(u); b.insert(b.end(), (u8 *)&v, (u8 *)&v + 2); } else b.insert(b.end(), (u8 *)&u, (u8 *)&u + 4); } std::vector<size_t> base; ref_decode(b, enc, out, base); return out; };
                    std::vector<u32> c0 = cps_of(r, e0);
                    for (int e : {1, 2, 4}) {
                        if (e == e0) continue;
                        Op o2 = op; o2.a[3] = e; OpResult r2 = w.exec(o2);
                        bool n0 = r.v.empty() || r.v[0] < 0, n2 = r2.v.empty() || r2.v[0] < 0;
                        if (n0 != n2) { violation("C18:label-encodings-disagree", strf("label is %s in encoding %d but %s in encoding %d", n0 ? "NULL" : "present", e0, n2 ? "NULL" : "present", e)); break; }
                        if (!n0 && (r.v[1] != r2.v[1] || cps_of(r2, e) != c0)) { violation("C18:label-encodings-disagree", strf("label text/language differs between encodings %d and %d", e0, e)); break; }
                    }
                    if (violated()) break;
                }
                const Model &m = models[size_t(fi)]; const FaceObj &fo = w.faces[size_t(fi)];
                if (!m.ok || !fo.nfeat || r.v.empty() || r.v[0] < 0) { probe("feat:label-null"); continue; }
                unsigned fidx = unsigned(u64(op.arg(1)) % fo.nfeat); if (fidx >= m.visible.size()) continue;
                const MFeat &f = m.feats[size_t(m.visible[fidx])];
                u16 nameid = f.nameid; i64 setting = op.arg(2, -1);
                if (setting >= 0) { if (f.settings.empty()) continue; nameid = f.settings[size_t(u64(setting) % f.settings.size())].second; }
                int enc = int(op.arg(3)); if (enc != 1 && enc != 2 && enc != 4) enc = 1;
                i64 len = r.v[0]; u16 lang = u16(r.v[1]);
                std::vector<u32> got; for (size_t k = 2; k < r.v.size(); ++k) got.push_back(u32(r.v[k]));
                if (got.size() != size_t(len) + 1 || got.back() != 0) { violation("C18:label-termination", strf("label (feature #%u, name id %u, enc %d) is not NUL-terminated at its reported length %lld", fidx, nameid, enc, (long long)len)); break; }
                got.pop_back();
                bool match = false, any = false;
                for (auto &nr : m.names) if (nr.nameid == nameid && nr.lang == lang) { any = true; if (units_to_enc(nr.units, enc) == got) { match = true; break; } }
                probe("feat:label-checked");
                if (!match) { violation("C18:label-text", strf("label (feature #%u, name id %u, enc %d, returned language 0x%04x, length %lld) is not the text of %s", fidx, nameid, enc, lang, (long long)len, any ? "the name record with that id and language" : "any name record (no record with that id and language)")); break; }
            }
            if (op.kind != "label" && op.kind != "fval_get") readback(op.kind.c_str());
            if (violated()) break;
        }
        if (!violated()) {
            // destroying a face must not disturb feature values that outlive it; clones equal their source is covered by read-back
            w.destroy_all();
        }
    }
    quiescence_check("C18");
}

} // namespace sim
