// Regression prefix: the repository's historical single-byte crashers (tests/fuzz-tests/<font>/<text>/*.fuzz)
// replayed as storage faults: one SETBYTES fault of one byte at <Table>+<offset>, shaped with the named text.
#include "modes.h"
#include <dirent.h>
namespace sim {
struct FuzzCase { std::string font, text, file; std::string tag; i64 off, val; };
static std::vector<FuzzCase> g_cases; static bool g_loaded = false;
static void list_dir(const std::string &d, std::vector<std::string> &out) { out.clear(); if (DIR *dd = opendir(d.c_str())) { while (dirent *e = readdir(dd)) { std::string n = e->d_name; if (n != "." && n != "..") out.push_back(n); } closedir(dd); } std::sort(out.begin(), out.end()); }
static void load_cases() {
    if (g_loaded) return; g_loaded = true;
    std::string root = g_repo + "/tests/fuzz-tests";
    std::vector<std::string> fonts, texts, files;
    list_dir(root, fonts);
    for (auto &f : fonts) {
        if (!g_corpus.find(f)) continue;
        list_dir(root + "/" + f, texts);
        for (auto &t : texts) {
            list_dir(root + "/" + f + "/" + t, files);
            for (auto &fl : files) {
                if (fl.size() < 5 || fl.substr(fl.size() - 5) != ".fuzz") continue;
                Bytes b; if (!read_file(root + "/" + f + "/" + t + "/" + fl, b)) continue;
                std::string s(b.begin(), b.end()); size_t pos = 0;
                while (pos < s.size()) {
                    size_t e = s.find('\n', pos); if (e == std::string::npos) e = s.size();
                    std::string line = s.substr(pos, e - pos); pos = e + 1;
                    // [status],0X<file offset>,<byte value>,<Table>+0X<table offset>
                    int st; unsigned long fo; int val; char tag[8] = {0}; unsigned long to;
                    if (sscanf(line.c_str(), "%d,0X%lx,%d,%4[A-Za-z0-9/ ]+0X%lx", &st, &fo, &val, tag, &to) == 5 && strlen(tag) == 4)
                        g_cases.push_back({f, t, fl, tag, i64(to), i64(val & 0xFF)});
                }
            }
        }
    }
}
size_t fuzzreg_count() { load_cases(); return g_cases.size() * 2; }
Plan gen_fuzzreg(u64 index) {
    load_cases(); Plan p; p.mode = "fuzzreg"; p.seed = index;
    if (g_cases.empty()) return p;
    const FuzzCase &c = g_cases[size_t(index % g_cases.size())];
    bool lazy = (index / g_cases.size()) & 1;
    Op mf; mf.kind = "make_face"; mf.s = c.font; mf.a = {0, 0, lazy ? 0 : 6, 0, 0};
    Fault f; f.kind = "SETBYTES"; f.tag = c.tag; f.nth = -1; f.a = {c.off, c.val}; mf.faults.push_back(f);
    p.ops.push_back(mf);
    Op ex; ex.kind = "face_exercise"; ex.a = {0}; ex.text = {0x41, 0x1000, 0x627}; p.ops.push_back(ex);
    // the text the crasher was found with: file name with '-' or '_' variations
    std::string want = c.text; for (auto &ch : want) if (ch == '-') ch = '_';
    int ti = -1; for (size_t i = 0; i < g_pool.file_names.size(); ++i) { std::string n = g_pool.file_names[i].substr(0, g_pool.file_names[i].size() - 4); if (n == want || n.find(want) == 0 || want.find(n) == 0) ti = int(i); }
    Rng r(mix64(index, 99));
    for (int k = 0; k < 4; ++k) {
        Op o; o.kind = "probe_seg"; o.a = {0, k & 1 ? 16 * 12 : 0, 1, (c.font.find("Schehera") == 0 || c.font.find("Awami") == 0) ? 1 : 0, 0};
        if (ti >= 0) { const std::vector<u32> &t = g_pool.files[size_t(ti)]; size_t len = k == 0 ? 600 : 20 + r.below(200); size_t st = k == 0 ? 0 : r.below(u32(t.size())); for (size_t i = st; i < t.size() && o.text.size() < len; ++i) o.text.push_back(t[i]); }
        else o.text = gen_text(r, c.font, 200, false);
        p.ops.push_back(o);
    }
    Op d; d.kind = "destroy_face"; d.a = {0}; p.ops.push_back(d);
    p.note = c.font + "/" + c.text + "/" + c.file;
    return p;
}
}
