// C14: compressed tables are transparent; the LZ4 decoder is exact and bounded.
// Reference LZ4 block decoder, seeded LZ4 block encoder (valid encodings with random legal choices),
// storage-format override (OVR_LZ4 / OVR_RELABEL5 / OVR_PLAIN / OVR_FORCED), end-to-end mode `lz4`, component mode `lz4c`.
#include "modes.h"
#include "inc/Decompressor.h"

namespace sim {

// ------------------------------------------------------------------------------------------ reference decoder (block format definition, fully bounds-checked)
bool ref_lz4_decode(const u8 *in, size_t n, size_t out_size, Bytes &out) {
    out.clear();
    size_t i = 0;
    if (n == 0) return false;
    for (;;) {
        if (i >= n) return false;
        unsigned token = in[i++];
        size_t ll = token >> 4;
        if (ll == 15) { for (;;) { if (i >= n) return false; unsigned b = in[i++]; ll += b; if (b != 255) break; } }
        if (ll > n - i) return false;
        if (ll > out_size - out.size()) return false;
        out.insert(out.end(), in + i, in + i + ll); i += ll;
        if (i == n) break;                                  // last sequence: literals only
        if (n - i < 2) return false;
        size_t off = in[i] | (size_t(in[i + 1]) << 8); i += 2;
        if (off == 0 || off > out.size()) return false;
        size_t ml = token & 15;
        if (ml == 15) { for (;;) { if (i >= n) return false; unsigned b = in[i++]; ml += b; if (b != 255) break; } }
        ml += 4;
        if (ml > out_size - out.size()) return false;
        size_t from = out.size() - off;
        for (size_t k = 0; k < ml; ++k) out.push_back(out[from + k]);   // byte-wise: overlapping matches repeat
    }
    return out.size() == out_size;
}

// ------------------------------------------------------------------------------------------ seeded encoder
static void emit_len(Bytes &o, size_t v) { while (v >= 255) { o.push_back(255); v -= 255; } o.push_back(u8(v)); }
static void emit_seq(Bytes &o, const u8 *lit, size_t ll, size_t off, size_t ml /* 0 = final */) {
    unsigned t = unsigned(ll >= 15 ? 15 : ll) << 4;
    if (ml) t |= unsigned((ml - 4) >= 15 ? 15 : (ml - 4));
    o.push_back(u8(t));
    if (ll >= 15) emit_len(o, ll - 15);
    o.insert(o.end(), lit, lit + ll);
    if (ml) { o.push_back(u8(off)); o.push_back(u8(off >> 8)); if (ml - 4 >= 15) emit_len(o, ml - 4 - 15); }
}

// style: 0 greedy-longest, 1 random choices, 2 short matches/small offsets, 3 literal-heavy (long literal runs)
void lz4_encode(const Bytes &p, u64 seed, Bytes &out) {
    Rng r(seed); out.clear();
    const size_t n = p.size();
    unsigned style = r.below(5);      // 4 = sparse: takes matches only until the block is a few bytes shorter than the data
    const i64 sparse_target = 1 + i64(r.below(16));
    const size_t HB = 16; std::vector<int> head(size_t(1) << HB, -1), prev(n, -1);
    auto h4 = [&](size_t i) { u32 v; memcpy(&v, &p[i], 4); return size_t((v * 2654435761u) >> (32 - HB)); };
    size_t i = 0, lit = 0;
    size_t nomatch_until = 0;
    while (n >= 13 && i + 12 <= n) {
        size_t best_len = 0, best_off = 0;
        if (i >= nomatch_until && !(style == 4 && i64(i) - i64(out.size()) - i64(lit) - i64(lit / 255) - 1 - i64((n - i) / 255) - 1 >= sparse_target)) {
            std::vector<std::pair<size_t, size_t>> cands;     // (off, maxlen)
            int j = head[h4(i)]; int chain = style == 0 ? 16 : 8;
            while (j >= 0 && chain-- > 0) {
                size_t off = i - size_t(j);
                if (off > 65535) break;
                if (!memcmp(&p[size_t(j)], &p[i], 4)) { size_t l = 4, lim = n - 5 - i; while (l < lim && p[size_t(j) + l] == p[i + l]) ++l; if (l >= 4 && lim >= 4) cands.push_back(std::make_pair(off, l)); }
                j = prev[size_t(j)];
            }
            // overlapping candidate: distance 1..3 runs
            for (size_t off = 1; off <= 3 && off <= i; ++off) { size_t l = 0, lim = n - 5 - i; while (l < lim && p[i - off + l] == p[i + l]) ++l; if (l >= 4) cands.push_back(std::make_pair(off, l)); }
            if (!cands.empty()) {
                bool take = style == 3 ? r.chance(1, 6) : style == 1 ? r.chance(4, 5) : true;
                if (style == 4 && cands[0].second > 24) { for (auto &cd : cands) if (cd.second > 24) cd.second = 8 + r.below(16); }   // small steps towards the target
                if (take) {
                    size_t c = 0;
                    if (style == 0 || style == 4) { for (size_t k = 1; k < cands.size(); ++k) if (cands[k].second > cands[c].second) c = k; }
                    else if (style == 2) { for (size_t k = 1; k < cands.size(); ++k) if (cands[k].first < cands[c].first) c = k; }
                    else c = r.below(u32(cands.size()));
                    best_off = cands[c].first; best_len = cands[c].second;
                    if (style != 0 && best_len > 4) { u32 k = r.below(4); if (k == 0) best_len = 4 + r.below(u32(best_len - 3)); else if (k == 1 && best_len > 19) best_len = 19 + r.below(u32(best_len - 18)); }
                }
            }
        }
        if (best_len >= 4) {
            emit_seq(out, &p[i - lit], lit, best_off, best_len);
            for (size_t k = 0; k < best_len && i + k + 4 <= n; k += (best_len > 64 ? 7 : 1)) { size_t h = h4(i + k); prev[i + k] = head[h]; head[h] = int(i + k); }
            i += best_len; lit = 0;
            if (style == 3 && r.chance(1, 4)) nomatch_until = i + 15 + r.below(600);
        } else {
            size_t h = h4(i); prev[i] = head[h]; head[h] = int(i);
            ++i; ++lit;
        }
    }
    lit += n - i;
    emit_seq(out, &p[n - lit], lit, 0, 0);
}

// ------------------------------------------------------------------------------------------ storage-format overrides
static std::map<u32, Bytes> g_forced;

static bool plain_of(const Bytes &t, Bytes &plain) {     // decode a shipped compressed table with the reference decoder
    if (t.size() < 8) return false;
    u32 hdr = be32(&t[4]);
    if ((hdr >> 27) != 1) return false;
    size_t sz = hdr & 0x07FFFFFF;
    return ref_lz4_decode(&t[8], t.size() - 8, sz, plain);
}
static bool is_compressed(u32 tag, const Bytes &t) {
    if (t.size() < 8) return false;
    u32 ver = be32(&t[0]);
    if (tag == mktag("Silf") && ver < 0x00050000) return false;
    if (tag == mktag("Glat") && ver < 0x00030000) return false;
    return (be32(&t[4]) >> 27) == 1;
}

void lz4_override(Store &st, const Fault &f) {
    u32 tag = mktag(f.tag.c_str());
    auto it = st.tables.find(tag);
    if (f.kind == "OVR_FORCED") { auto g = g_forced.find(tag); if (g != g_forced.end()) st.tables[tag] = g->second; return; }
    if (it == st.tables.end()) return;
    Bytes &t = it->second;
    if (f.kind == "OVR_RELABEL5") {        // Silf 4.x plaintext relabelled 5.0 (same layout; needed because the compressed form requires version >= 5)
        if (tag == mktag("Silf") && t.size() >= 8 && be32(&t[0]) >= 0x00040000 && be32(&t[0]) < 0x00050000) set32(t, 0, 0x00050000);
        return;
    }
    if (f.kind == "OVR_PLAIN") { if (is_compressed(tag, t)) { Bytes pl; if (plain_of(t, pl)) t = pl; } return; }
    if (f.kind == "OVR_LZ4") {
        Bytes plain;
        if (is_compressed(tag, t)) { if (!plain_of(t, plain)) return; } else plain = t;
        if (plain.size() < 16) return;
        u32 ver = be32(&plain[0]);
        if (tag == mktag("Silf") && ver < 0x00050000) return;     // cannot be stored compressed
        if (tag == mktag("Glat") && ver < 0x00030000) return;
        Bytes block; lz4_encode(plain, u64(f.a.empty() ? 1 : f.a[0]), block);
        Bytes chk; if (!ref_lz4_decode(block.data(), block.size(), plain.size(), chk) || chk != plain) { violation("SIM:encoder-roundtrip", "the harness's LZ4 encoder output does not round-trip through the reference decoder"); return; }
        if (block.size() + 8 >= plain.size() + 8 || block.size() >= plain.size()) { probe("lz4:encoding-not-shorter"); return; }   // decoder's contract: only encodings shorter than the data
        Bytes c; put32(c, ver); put32(c, (1u << 27) | u32(plain.size())); c.insert(c.end(), block.begin(), block.end());
        t = c; probe("lz4:table-compressed");
    }
}

// ------------------------------------------------------------------------------------------ end-to-end mode
static const char *LZ_BASES[] = {"Awami_test", "Awami_compressed_test", "AwamiNastaliq-Regular"};

Plan gen_lz4(u64 seed) {
    Rng r(seed); Plan p; p.mode = "lz4"; p.seed = seed;
    std::string font = LZ_BASES[r.chance(2, 3) ? 0 : 1 + r.below(2)];
    const FontImage *fi = g_corpus.find(font);
    Op a; a.kind = "make_face"; a.s = font; a.a = {r.chance(1, 5) ? 1 : 0, 0, i64(r.below(8)), 0, 0};
    Op b = a; b.a[0] = 0;
    { Fault f; f.kind = "OVR_RELABEL5"; f.tag = "Silf"; a.faults.push_back(f); b.faults.push_back(f); }
    u32 which = r.below(10);       // 0..5 both, 6..7 Silf only, 8..9 Glat only
    bool silf = which < 8, glat = which < 6 || which >= 8;
    bool keep_shipped = font != "Awami_test" && r.chance(1, 3);     // the shipped encoding itself
    for (const char *tg : {"Silf", "Glat"}) {
        bool comp = !strcmp(tg, "Silf") ? silf : glat;
        Fault pl; pl.kind = "OVR_PLAIN"; pl.tag = tg; b.faults.push_back(pl);
        if (keep_shipped) continue;
        if (comp) { Fault f; f.kind = "OVR_LZ4"; f.tag = tg; f.a = {i64(r.next() >> 8)}; a.faults.push_back(f); }
        else a.faults.push_back(pl);
    }
    if (r.chance(1, 2)) {   // faulted configuration: rot on the compressed bytes / header
        unsigned n = 1 + r.below(2);
        for (unsigned k = 0; k < n; ++k) {
            Fault f; f.tag = r.chance(1, 2) ? "Silf" : "Glat"; f.nth = -1;
            auto it = fi->tables.find(mktag(f.tag.c_str())); size_t sz = it == fi->tables.end() ? 64 : it->second.size() / 3 + 16;
            u32 c = r.below(10);
            if (c < 2) {      // the announced size lowered / raised by a few bytes (a literal run or a match that no longer fits)
                auto it2 = fi->tables.find(mktag(f.tag.c_str())); u32 approx = it2 == fi->tables.end() ? 1000 : u32(it2->second.size());
                (void)approx; f.kind = "SIZEROT"; f.a = {i64(r.below(2) ? -(1 + i64(r.below(12))) : 1 + i64(r.below(12)))};
                if (r.chance(1, 3)) { static const int tiny[] = {0, 1, 2, 3, 4, 5, 7, 8}; f.kind = "SETBYTES"; f.a = {4, 0x08, 5, 0, 6, 0, 7, tiny[r.below(8)]}; }   // an announced size smaller than the version word the loader writes back
            }
            else if (c < 3) { f.kind = "BITROT"; f.a = {i64(r.below(8)), i64(1u << r.below(8))}; }                  // header (version / scheme / size)
            else if (c < 7) { f.kind = "BITROT"; unsigned m = 1 + r.below(2); for (unsigned q = 0; q < m; ++q) { f.a.push_back(i64(8 + (r.chance(1, 2) ? r.below(64) : r.below(u32(sz))))); f.a.push_back(r.chance(1, 2) ? i64(1u << r.below(8)) : i64(1 + r.below(255))); } }
            else if (c < 8) { f.kind = "TRUNCATE"; f.a = {i64(r.chance(1, 2) ? r.below(40) : r.below(u32(sz)))}; }
            else if (c < 9) { f.kind = "TORN"; f.a = {i64(r.below(u32(sz)) & ~15u), 16 << r.below(4), 0}; }
            else { f.kind = "SETBYTES"; static const int hv[] = {0, 0xFF, 0x08, 0x10, 0x0F}; f.a = {i64(4 + r.below(4)), hv[r.below(5)]}; }
            a.faults.push_back(f);
        }
    }
    p.ops.push_back(a); p.ops.push_back(b);
    Op rep; rep.kind = "face_query"; rep.a = {0, 9, 0}; p.ops.push_back(rep);
    unsigned n = g_tier ? 5 + r.below(16) : 3 + r.below(5);
    for (unsigned i = 0; i < n; ++i) p.ops.push_back(gen_probe(r, font, g_tier ? 60 : 24, true));
    return p;
}

static bool has_real_fault(const Op &op) { for (auto &f : op.faults) if (f.kind.compare(0, 4, "OVR_") != 0) return true; return false; }

void run_lz4(const Plan &p) {
    std::vector<const Op *> faces, ops;
    for (auto &op : p.ops) { if (op.kind == "make_face" && ops.empty() && faces.size() < 2) faces.push_back(&op); else ops.push_back(&op); }
    if (faces.size() < 2) return;
    std::vector<OpResult> ra;
    bool faulted = has_real_fault(*faces[0]);
    std::map<u32, Bytes> served;      // what the compressed store really served for Silf/Glat (after faults)
    bool loaded;
    {
        World a; a.id = 1; a.leak_prop = "C14"; a.override_fn = all_overrides;
        OpResult mf = exec_ext(a, *faces[0]);
        loaded = mf.v.size() && mf.v[0];
        const FaceObj &f = a.faces.back();
        for (const char *tg : {"Silf", "Glat"}) {
            u32 tag = mktag(tg); auto it = f.store->tables.find(tag); if (it == f.store->tables.end()) continue;
            Bytes b = it->second;
            for (auto &ft : faces[0]->faults) if (ft.kind.compare(0, 4, "OVR_") != 0 && ft.tag == tg) apply_content_fault(ft, b, f.store->tables);
            served[tag] = b;
        }
        if (!loaded) {
            probe(faulted ? "lz4:faulted-rejected" : "lz4:clean-rejected");
            if (!faulted) {
                // only acceptable when no table ended up compressed-and-different; a valid shorter encoding must load
                violation("C14:valid-encoding-rejected", strf("font %s with validly compressed tables does not load although the same font loads uncompressed", faces[0]->s.c_str()));
            }
        } else {
            probe(faulted ? "lz4:faulted-accepted" : "lz4:clean-accepted");
            for (auto *op : ops) { ra.push_back(exec_ext(a, *op)); if (violated()) break; }
        }
    }
    if (violated()) { return; }
    if (!loaded) { quiescence_check("C14"); return; }
    // twin: plaintext store. In the faulted configuration the plaintext is what the reference decoder makes of the served bytes.
    Op twin = *faces[1];
    g_forced.clear();
    if (faulted) {
        for (auto &sv : served) {
            const Bytes &t = sv.second;
            if (!is_compressed(sv.first, t)) { g_forced[sv.first] = t; continue; }     // served uncompressed (rot hit plaintext or scheme bits cleared)
            size_t sz = be32(&t[4]) & 0x07FFFFFF; Bytes pl;
            if (!ref_lz4_decode(&t[8], t.size() - 8, sz, pl)) { violation("C14:accepted-what-reference-rejects", strf("face loaded although the reference LZ4 decoder fails on the served '%s' block (announced size %zu, block %zu bytes)", tagstr(sv.first).c_str(), sz, t.size() - 8)); return; }
            if (pl.size() >= 8 && (be32(&pl[4]) >> 27) != 0) {
                // the decoded table's own second word has scheme bits set: served as plaintext it would be taken for a compressed
                // table, so no plaintext twin exists for it (the comparison is skipped, not judged)
                probe("lz4:twin-unservable"); g_forced.clear(); quiescence_check("C14"); return;
            }
            if (pl.size() >= 4 && be32(&pl[0]) != be32(&t[0])) { violation("C14:version-mismatch-accepted", "face loaded although the decompressed version word differs from the header's"); return; }
            g_forced[sv.first] = pl;
            probe("lz4:faulted-accepted-and-reference-agrees");
        }
        twin.faults.clear();
        for (auto &g : g_forced) { Fault f; f.kind = "OVR_FORCED"; f.tag = tagstr(g.first); twin.faults.push_back(f); }
    }
    {
        World b; b.id = 2; b.leak_prop = "C14"; b.override_fn = all_overrides;
        OpResult mf = exec_ext(b, twin);
        if (!(mf.v.size() && mf.v[0])) { violation("C14:twin-rejected", "the compressed font loads but the same font with the reference decoder's plaintext does not"); return; }
        for (size_t i = 0; i < ops.size() && i < ra.size(); ++i) {
            OpResult r = exec_ext(b, *ops[i]);
            if (r.kind != ra[i].kind || r.v != ra[i].v) {
                std::string d = r.kind == "seg" && ra[i].kind == "seg" ? dump_diff(ra[i].v, r.v) : "answers differ";
                violation("C14:compressed-differs-from-plaintext", strf("op %zu (%s): %s", i, ops[i]->kind.c_str(), d.c_str()));
                break;
            }
        }
    }
    g_forced.clear();
    quiescence_check("C14");
}

// ------------------------------------------------------------------------------------------ component mode: lz4::decompress directly
Plan gen_lz4c(u64 seed) {
    Rng r(seed); Plan p; p.mode = "lz4c"; p.seed = seed;
    Op o; o.kind = "lz4_block";
    // a = [source kind, source param, encoder seed, nmut, (off,val)*, out_size delta]
    u32 src = r.below(10);
    if (r.chance(1, 2500)) src = 10 + r.below(2);     // a 17 MB block whose length-extension run sums past 2^32 (literal or match length)
    o.a = {i64(src), i64(r.next() >> 16), i64(r.next() >> 8)};
    unsigned nmut = r.chance(1, 2) ? 0 : 1 + r.below(3);
    o.a.push_back(nmut);
    for (unsigned k = 0; k < nmut; ++k) { o.a.push_back(i64(r.next() >> 20)); o.a.push_back(r.chance(1, 2) ? i64(1u << r.below(8)) : i64(1 + r.below(255))); }
    static const int deltas[] = {0, 0, 0, 0, 1, -1, 8, -8, 100, -5};
    o.a.push_back(nmut || r.chance(1, 4) ? deltas[r.below(10)] : 0);
    o.a.push_back(r.chance(1, 8) ? i64(r.below(40)) : -1);     // truncate input to this many bytes (-1: no)
    p.ops.push_back(o);
    return p;
}

static void make_plain(u32 kind, u64 param, Bytes &pl) {
    Rng r(param); pl.clear();
    if (kind < 4) {     // slice of a real table
        static const char *fonts[] = {"Padauk", "Awami_test", "charis_r_gr", "Scheherazadegr"}; static const char *tags[] = {"Silf", "Glat", "Gloc", "cmap"};
        const FontImage *fi = g_corpus.find(fonts[r.below(4)]); auto it = fi->tables.find(mktag(tags[r.below(4)]));
        if (it != fi->tables.end() && it->second.size() > 64) { const Bytes &t = it->second; size_t len = 16 + r.below(u32(std::min<size_t>(t.size() - 16, r.chance(1, 4) ? 70000 : 3000))); size_t st = r.below(u32(t.size() - len + 1)); pl.assign(t.begin() + long(st), t.begin() + long(st + len)); return; }
    }
    if (kind < 6) { size_t len = 13 + r.below(5000); u8 v = u8(r.next()); pl.assign(len, v); for (size_t k = 0; k < len / 50; ++k) pl[r.below(u32(len))] = u8(r.next()); return; }   // long runs (overlapping matches, 255-extensions)
    if (kind < 8) { size_t per = 1 + r.below(9), len = 13 + r.below(3000); for (size_t k = 0; k < len; ++k) pl.push_back(u8(k % per * 37 + (k / 400))); return; }      // periodic
    size_t len = 13 + r.below(600); for (size_t k = 0; k < len; ++k) pl.push_back(u8(r.chance(1, 3) ? r.next() : 'a' + r.below(3)));    // small alphabet
}

// A block in which one length is spelt with 16 843 009 extension bytes of 0xFF: 15 + 255*16843009 + b = 2^32 + 14 + b. No such length is
// valid (the whole input is shorter); a decoder that accumulates in 32 bits sees 14 + b and may go on to decode the rest happily.
static void make_wrap_block(bool in_match, u64 param, Bytes &block, size_t &out_size) {
    Rng r(param); block.clear();
    const size_t N = 16843009; const unsigned b = r.below(3);
    auto ext = [&](size_t v) { while (v >= 255) { block.push_back(0xFF); v -= 255; } block.push_back(u8(v)); };
    const size_t big = 17000000 + r.below(5000);          // a genuine long match so that the announced size exceeds the input size
    if (!in_match) {
        block.push_back(0xFF);                                 // literal length 15+, match length 15+
        block.insert(block.end(), N, 0xFF); block.push_back(u8(b));          // literal length "2^32 + 14 + b"
        for (unsigned k = 0; k < 14 + b; ++k) block.push_back(u8('A' + k));
        block.push_back(u8(14 + b)); block.push_back(0);       // match distance
        ext(big - 4 - 15);
        out_size = 14 + b + big;
    } else {
        block.push_back(0x1F); block.push_back('A'); block.push_back(1); block.push_back(0);       // 1 literal, match distance 1, length 15+
        block.insert(block.end(), N, 0xFF); block.push_back(u8(b));          // match length "2^32 + 14 + b (+4)"
        block.push_back(0x0F); block.push_back(1); block.push_back(0); ext(big - 4 - 15);         // no literal, a genuine long match
        out_size = 1 + (14 + b + 4) + big;
    }
    block.push_back(0x50); for (unsigned k = 0; k < 5; ++k) block.push_back(u8('V' + k));          // last literals
    out_size += 5;
}

void run_lz4c(const Plan &p) {
    for (auto &op : p.ops) {
        if (op.kind != "lz4_block") continue;
        if (op.arg(0) >= 10) {
            Bytes block; size_t out_size = 0; make_wrap_block(op.arg(0) == 11, u64(op.arg(1)), block, out_size);
            u8 *in = (u8 *)malloc(block.size()); memcpy(in, block.data(), block.size());
            u8 *out = (u8 *)malloc(out_size); memset(out, 0xA5, out_size);
            int rc;
            { API("lz4-decompress", 2000000000ull); LibGuard g; rc = lz4::decompress(in, block.size(), out, out_size); }
            Bytes ref; bool ref_ok = ref_lz4_decode(block.data(), block.size(), out_size, ref);
            g_nontrivial = true; probe("lz4c:length-wrap-block");
            if (rc >= 0 && size_t(rc) == out_size) {
                if (!ref_ok) violation("C14:accepted-what-reference-rejects", strf("decompress returned the announced size %zu on a %zu-byte block in which one %s length is spelt with 16843009 extension bytes (2^32 + small): the reference decoder rejects it", out_size, block.size(), op.arg(0) == 11 ? "match" : "literal"));
                else if (memcmp(out, ref.data(), out_size)) violation("C14:wrong-bytes", "length-wrap block: bytes differ from the reference decoder's");
            } else probe("lz4c:rejected");
            free(in); free(out);
            continue;
        }
        Bytes pl; make_plain(u32(op.arg(0)), u64(op.arg(1)), pl);
        Bytes block; lz4_encode(pl, u64(op.arg(2)), block);
        Bytes chk; if (!ref_lz4_decode(block.data(), block.size(), pl.size(), chk) || chk != pl) { violation("SIM:encoder-roundtrip", "harness encoder output does not round-trip through the reference decoder"); return; }
        size_t nmut = size_t(op.arg(3)); bool mutated = false;
        for (size_t k = 0; k < nmut && 4 + 2 * k + 1 < op.a.size(); ++k) { if (block.empty()) break; size_t off = size_t(u64(op.a[4 + 2 * k]) % block.size()); u8 x = u8(op.a[5 + 2 * k]); if (!x) x = 1; block[off] ^= x; mutated = true; }
        i64 delta = op.arg(4 + 2 * nmut); i64 trunc = op.arg(5 + 2 * nmut, -1);
        if (trunc >= 0 && size_t(trunc) < block.size()) { block.resize(size_t(trunc)); mutated = true; }
        size_t out_size = pl.size(); if (delta < 0 && size_t(-delta) >= out_size) delta = 0; out_size = size_t(i64(out_size) + delta);
        // exact-size heap buffers so that ASan sees any access outside them
        u8 *in = (u8 *)malloc(block.size() ? block.size() : 1); if (!block.empty()) memcpy(in, block.data(), block.size());
        u8 *out = (u8 *)malloc(out_size ? out_size : 1); memset(out, 0xA5, out_size ? out_size : 1);
        int rc;
        { API("lz4-decompress", 2000000000ull); LibGuard g; rc = lz4::decompress(in, block.size(), out, out_size); }
        Bytes ref; bool ref_ok = ref_lz4_decode(block.data(), block.size(), out_size, ref);
        if (g_run.tracing) { std::string h = "LZ4 block:"; for (u8 b : block) h += strf(" %02x", b); h += strf(" | out_size=%zu plain=%zu rc=%d ref_ok=%d ref_len=%zu", out_size, pl.size(), rc, int(ref_ok), ref.size()); g_run.trace.push_back(h); }
        g_nontrivial = true;
        probe(mutated || delta ? "lz4c:mutated" : "lz4c:valid");
        if (!mutated && delta == 0 && block.size() < pl.size() && block.size() >= 13) {
            // valid encoding, shorter than the data: must decode exactly
            if (rc != int(pl.size()) || memcmp(out, pl.data(), pl.size())) violation("C14:valid-block-misdecoded", strf("valid %zu-byte encoding of %zu bytes: decompress returned %d%s", block.size(), pl.size(), rc, rc == int(pl.size()) ? " but the bytes differ" : ""));
            else probe("lz4c:valid-decoded");
        } else if (rc >= 0 && size_t(rc) == out_size) {
            // the caller accepts exactly this outcome: it must be what the reference produces
            if (!ref_ok) violation("C14:accepted-what-reference-rejects", strf("decompress returned the announced size %zu on a block the reference decoder rejects (block %zu bytes)", out_size, block.size()));
            else if (memcmp(out, ref.data(), out_size)) violation("C14:wrong-bytes", strf("decompress returned the announced size %zu but the bytes differ from the reference decoder's", out_size));
            else probe("lz4c:mutated-accepted-agrees");
        } else probe("lz4c:rejected");
        free(in); free(out);
    }
}

} // namespace sim
