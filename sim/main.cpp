// grsim: deterministic simulator for graphite2. See /verif/DESIGN.md.
//   grsim --mode M --from A --to B [--base-seed S] [--tier quick|thorough]   batch worker
//   grsim --replay FILE [--trace] [--budget-scale K]                          re-execute one plan
//   grsim --gen --mode M --index I [--base-seed S]                            print the plan
#include "modes.h"
#include <unistd.h>

#ifndef GRSIM_PLAIN
extern "C" void __sanitizer_set_death_callback(void (*)(void));
#endif

using namespace sim;

namespace sim { extern void (*g_fatal_hook)(const char *, const char *); }

static u64 g_cur_index = 0, g_cur_seed = 0;
static std::string g_cur_plan;
static bool g_in_run = false;

static void on_death() {
    if (!g_in_run) return;
    // a sanitizer is about to abort: say where we were (stdout is line-oriented for the driver)
    printf("DEATH %llu %llu api=%s call#%llu steps=%llu\n", (unsigned long long)g_cur_index, (unsigned long long)g_cur_seed, g_api_name, (unsigned long long)g_api_index, (unsigned long long)g_steps);
    printf("PLAN %s\n", g_cur_plan.c_str());
    fflush(stdout);
}
static void on_fatal(const char *cls, const char *detail) {
    printf("VIOL %llu %llu %s|%s\n", (unsigned long long)g_cur_index, (unsigned long long)g_cur_seed, cls, detail);
    printf("PLAN %s\n", g_cur_plan.c_str());
    fflush(stdout);
}

static std::string stats_json() {
    std::string s = "{\"probe\":{";
    bool first = true;
    for (auto &p : g_probe) { if (!first) s += ","; first = false; json_esc(s, p.first); s += ":" + std::to_string(p.second); }
    s += "},\"max\":{"; first = true;
    for (auto &p : g_maxstat) { if (!first) s += ","; first = false; json_esc(s, p.first); s += ":" + std::to_string(p.second); }
    s += "}}";
    return s;
}

namespace sim { void synth_debug(u64, u64); }
void synth_debug_entry(u64 a, u64 b) { sim::synth_debug(a, b); }
static u64 mode_salt(const std::string &m) { Hasher h; h.s(m); return h.h; }

int main(int argc, char **argv) {
    std::string mode, replay, repo = "/repo", tier = "quick";
    u64 from = 0, to = 0, base = 1, index = 0, bscale = 1; bool gen = false, trace = false;
    for (int i = 1; i < argc; ++i) {
        std::string a = argv[i];
        auto next = [&]() -> const char * { return i + 1 < argc ? argv[++i] : ""; };
        if (a == "--mode") mode = next(); else if (a == "--from") from = strtoull(next(), 0, 10); else if (a == "--to") to = strtoull(next(), 0, 10);
        else if (a == "--base-seed") base = strtoull(next(), 0, 10); else if (a == "--tier") tier = next(); else if (a == "--replay") replay = next();
        else if (a == "--gen") gen = true; else if (a == "--index") index = strtoull(next(), 0, 10); else if (a == "--trace") trace = true;
        else if (a == "--repo") repo = next(); else if (a == "--budget-scale") bscale = strtoull(next(), 0, 10);
        else { fprintf(stderr, "unknown argument %s\n", a.c_str()); return 3; }
    }
    g_tier = tier == "thorough" ? 1 : 0;
    g_budget_scale = bscale ? bscale : 1;
    setvbuf(stdout, 0, _IOLBF, 0);
    if (!corpus_load(repo)) { fprintf(stderr, "cannot load corpus from %s\n", repo.c_str()); return 3; }
    pool_build();
    { Rng r(12345); g_default_report_cps = {0x20, 0x41, 0x61, 0xE9, 0x300, 0x627, 0x628, 0x1000, 0x1039, 0x915, 0xFFFF, 0x10000, 0x1D510, 0x10FFFF, 0xE000, 0x200B}; }
    alloc_install();
    g_fatal_hook = on_fatal;
#ifndef GRSIM_PLAIN
    __sanitizer_set_death_callback(on_death);
#else
    (void)on_death;
#endif

    if (!replay.empty()) {
        Bytes b; if (!read_file(replay, b)) { fprintf(stderr, "cannot read %s\n", replay.c_str()); return 3; }
        std::string s(b.begin(), b.end()); JsonParser jp(s); JP j = jp.val(); Plan p;
        if (!jp.ok || !plan_from_json(j, p)) { fprintf(stderr, "bad plan file\n"); return 3; }
        g_cur_seed = p.seed; g_cur_plan = plan_str(p); g_in_run = true;
        RunResult r = execute(p, trace);
        g_in_run = false;
        if (trace) for (auto &l : g_run.trace) printf("TRACE %s\n", l.c_str());
        for (auto &v : g_run.all_viols) printf("ALLVIOL %s|%s\n", v.first.c_str(), v.second.c_str());
        printf("RESULT %s|%s\nHASH %016llx steps=%llu events=%llu nontrivial=%d\n", r.cls.c_str(), r.detail.c_str(), (unsigned long long)r.hash, (unsigned long long)r.steps, (unsigned long long)r.events, int(r.nontrivial));
        printf("STATS %s\n", stats_json().c_str());
        return r.cls.empty() ? 0 : 1;
    }
    if (gen) { u64 seed = mix64(mix64(base, mode_salt(mode)), index); Plan p = generate(mode, seed, index); printf("%s\n", plan_str(p).c_str()); return 0; }
    if (mode.empty()) { fprintf(stderr, "need --mode\n"); return 3; }
    if (mode == "synthdbg") { extern void synth_debug_entry(u64, u64); synth_debug_entry(from, to); return 0; }
    if (mode == "info") { printf("INFO fuzzreg=%zu fonts=%zu\n", fuzzreg_count(), g_pool.font_names.size()); return 0; }
    u64 samples = 0;
    for (u64 i = from; i < to; ++i) {
        u64 seed = mix64(mix64(base, mode_salt(mode)), i);
        Plan p = generate(mode, seed, i);
        if (p.mode.empty()) { fprintf(stderr, "unknown mode %s\n", mode.c_str()); return 3; }
        g_cur_index = i; g_cur_seed = seed; g_cur_plan = plan_str(p);
        printf("BEGIN %llu %llu\n", (unsigned long long)i, (unsigned long long)seed);
        g_in_run = true;
        RunResult r = execute(p, false);
        g_in_run = false;
        if (!r.cls.empty()) { printf("VIOL %llu %llu %s|%s\nPLAN %s\n", (unsigned long long)i, (unsigned long long)seed, r.cls.c_str(), r.detail.c_str(), g_cur_plan.c_str()); }
        printf("END %llu %llu %016llx %llu %d %016llx\n", (unsigned long long)i, (unsigned long long)seed, (unsigned long long)r.hash, (unsigned long long)r.steps, int(r.nontrivial), (unsigned long long)plan_hash(p));
        if (samples < 2 && r.nontrivial && (i % 97 == from % 97)) { printf("SAMPLE %s\n", g_cur_plan.c_str()); ++samples; }
    }
    printf("STATS %s\n", stats_json().c_str());
    printf("DONE %llu %llu\n", (unsigned long long)from, (unsigned long long)to);
    return 0;
}
