#include "modes.h"

namespace sim {

bool g_nontrivial = false;
int g_tier = 0;

OpResult exec_ext(World &w, const Op &op) {
    if (op.kind == "face_exercise") { OpResult r; r.kind = "skip"; int fi = w.pick_face(op.arg(0)); if (fi >= 0) { face_exercise(w, fi, op.text); r.kind = "int"; g_nontrivial = true; } return r; }
    OpResult r = w.exec(op);
    if (r.kind == "seg" || r.kind == "label" || (r.kind == "int" && op.kind != "make_font" && op.kind.compare(0, 7, "destroy") != 0)) g_nontrivial = true;
    return r;
}

// Well-formed storage variants of a corpus font (same font to every face of a plan): C10 compares configurations on them.
static void variant_override(Store &st, const Fault &f) {
    if (f.kind == "OVR_NOSUBBOX") {
        // Glat v3 with octaboxes: every glyph keeps its main (slant) box, all sub-boxes are dropped and Gloc is rebuilt
        auto ga = st.tables.find(mktag("Glat")), go = st.tables.find(mktag("Gloc"));
        if (ga == st.tables.end() || go == st.tables.end()) return;
        const Bytes &glat = ga->second, &gloc = go->second;
        if (glat.size() < 8 || gloc.size() < 8 || be32(&glat[0]) != 0x00030000 || (be32(&glat[4]) >> 27) != 0 || !(be32(&glat[4]) & 1)) return;
        const unsigned flags = be16(&gloc[4]); if (flags & 2) return;
        const bool lng = flags & 1; const size_t sz = lng ? 4 : 2; if ((gloc.size() - 8) / sz < 2) return;
        const size_t n = (gloc.size() - 8) / sz - 1;
        auto off = [&](size_t i) { return lng ? size_t(be32(&gloc[8 + i * 4])) : size_t(be16(&gloc[8 + i * 2])); };
        Bytes out(glat.begin(), glat.begin() + 8); std::vector<size_t> no;
        for (size_t g = 0; g < n; ++g) {
            size_t s = off(g), e = off(g + 1); no.push_back(out.size());
            if (e <= s || e > glat.size() || s + 6 > e) { if (e > s && e <= glat.size()) out.insert(out.end(), glat.begin() + long(s), glat.begin() + long(e)); continue; }
            unsigned bm = be16(&glat[s]), k = 0; for (unsigned b = bm; b; b &= b - 1) ++k;
            if (s + 6 + 8 * size_t(k) > e) { out.insert(out.end(), glat.begin() + long(s), glat.begin() + long(e)); continue; }
            out.push_back(0); out.push_back(0); out.insert(out.end(), glat.begin() + long(s + 2), glat.begin() + long(s + 6)); out.insert(out.end(), glat.begin() + long(s + 6 + 8 * k), glat.begin() + long(e));
        }
        no.push_back(out.size());
        if (!lng && out.size() > 0xFFFF) return;
        Bytes nl(gloc.begin(), gloc.begin() + 8); for (size_t o : no) { if (lng) put32(nl, u32(o)); else put16(nl, u32(o)); }
        st.tables[mktag("Glat")] = out; st.tables[mktag("Gloc")] = nl;
        probe("variant:no-subboxes");
    } else if (f.kind == "OVR_CMAP01") {
        // every format-4 subtable whose first segment is U+0000..U+0000 with room behind it maps U+0001 too (same delta)
        auto it = st.tables.find(mktag("cmap")); if (it == st.tables.end()) return; Bytes &t = it->second; if (t.size() < 4) return;
        unsigned n = be16(&t[2]); std::set<size_t> done; bool any = false;
        for (unsigned i = 0; i < n && 4 + 8 * size_t(i) + 8 <= t.size(); ++i) {
            size_t so = be32(&t[4 + 8 * i + 4]); if (so + 16 > t.size() || be16(&t[so]) != 4 || done.count(so)) continue; done.insert(so);
            size_t sx2 = be16(&t[so + 6]), ends = so + 14, starts = ends + sx2 + 2, iro = starts + 2 * sx2; if (sx2 < 4 || iro + sx2 > t.size()) continue;
            if (be16(&t[starts]) == 0 && be16(&t[ends]) == 0 && be16(&t[starts + 2]) > 1 && be16(&t[iro]) == 0) { t[ends + 1] = 1; any = true; }
        }
        if (any) probe("variant:cmap-maps-0-and-1");
    } else if (f.kind == "OVR_NAMEFMT1") {
        // the same name table in format 1 (a langTagCount of 0 between the records and the strings): legal OpenType
        auto it = st.tables.find(mktag("name")); if (it == st.tables.end()) return; Bytes &t = it->second; if (t.size() < 6 || be16(&t[0]) != 0) return;
        size_t cnt = be16(&t[2]), so = be16(&t[4]), rec_end = 6 + 12 * cnt; if (so < rec_end || so > t.size() || so + 2 > 0xFFFF) return;
        Bytes n(t.begin(), t.begin() + long(rec_end)); n[1] = 1; n.push_back(0); n.push_back(0); n.insert(n.end(), t.begin() + long(rec_end), t.end());
        unsigned nso = unsigned(so + 2); n[4] = u8(nso >> 8); n[5] = u8(nso & 0xFF);
        t = n; probe("variant:name-format-1");
    }
}

void all_overrides(Store &st, const Fault &f) {
    if (f.kind == "OVR_NOSUBBOX" || f.kind == "OVR_CMAP01" || f.kind == "OVR_NAMEFMT1") variant_override(st, f);
    else if (f.kind == "OVR_FEAT") feat_override(st, f);
    else if (f.kind == "OVR_SILF" || f.kind == "OVR_SILFPROG") silf_override(st, f);
    else lz4_override(st, f);      // OVR_LZ4, OVR_RELABEL5, OVR_PLAIN, OVR_FORCED
}

// ------------------------------------------------------------------------------------------ generators: shared pieces
Op gen_make_face(Rng &r, const std::string &font, int lazy_bias, bool allow_file, bool knobs) {
    Op o; o.kind = "make_face"; o.s = font;
    int source = allow_file && r.chance(1, 3) ? 1 : 0;
    unsigned options;
    if (lazy_bias && r.chance(u32(lazy_bias), 100)) { static const unsigned lazy[] = {0, 1, 4, 5}; options = lazy[r.below(4)]; }
    else options = r.below(8);
    int ctor = 0, rel_null = 0, short_ops = 0;
    if (knobs) {
        ctor = source == 1 ? int(r.below(2)) : (r.chance(1, 3) ? int(r.below(4)) : 0);
        rel_null = r.chance(1, 10); short_ops = r.chance(1, 14);
        if (r.chance(1, 12)) options |= (u32(r.next()) & 0xFFFFFFF8u);     // undefined high bits
    }
    o.a = {source, ctor, i64(options), rel_null, short_ops, (knobs && source == 1 && r.chance(1, 3)) ? i64(1 + r.below(1000000)) : 0};   // a[5]: file layout (0 = the shipped bytes)
    return o;
}

Op gen_probe(Rng &r, const std::string &font, size_t maxlen, bool adversarial) {
    Op o; o.kind = "probe_seg";
    static const int ppms[] = {0, 0, 16 * 12, 16 * 24, 16 * 96, 8, 16 * 4096, 16 * 17 + 5};
    static const int encs[] = {1, 2, 4};
    i64 script = r.chance(1, 6) ? i64(r.chance(1, 2) ? 0x6C61746E : u32(r.next())) : 0;
    o.a = {0, ppms[r.below(8)], encs[r.below(3)], i64(r.below(8)), script};
    if (r.chance(1, 2)) {
        static const u32 langs[] = {0, 0x76696500, 0x76692020, 0x656E6700, 0x7A7A7A7A, 0x61726200, 0x6D796100};
        o.a.push_back(langs[r.below(7)]);
        unsigned n = r.below(4);
        for (unsigned i = 0; i < n; ++i) { o.a.push_back(r.below(64)); o.a.push_back(r.chance(1, 2) ? r.below(4) : r.below(300)); }
    }
    o.text = gen_text(r, font, maxlen, adversarial);
    if (o.a[1] > 0 && r.chance(1, 4)) o.a[1] |= (1 << 20);     // hinted font: advances come from a callback (a pure function of the glyph id)
    return o;
}

static Op mk(const char *kind, std::initializer_list<i64> a) { Op o; o.kind = kind; o.a = a; return o; }

static size_t text_max(Rng &r) {
    if (g_tier) return r.chance(1, 12) ? 600 : (r.chance(1, 4) ? 150 : 40);
    return r.chance(1, 25) ? 300 : (r.chance(1, 5) ? 80 : 24);
}

// ------------------------------------------------------------------------------------------ load (C01)
static Plan gen_load(u64 seed) {
    Rng r(seed); Plan p; p.mode = "load"; p.seed = seed;
    std::string font = r.chance(1, 40) ? "tiny" : gen_font(r);
    const FontImage *fi = g_corpus.find(font);
    Op mf = gen_make_face(r, font, 0, true, true);
    if (!r.chance(3, 10)) gen_faults(r, *fi, int(mf.a[0]), mf.faults, 4);
    p.ops.push_back(mf);
    Op ex; ex.kind = "face_exercise"; ex.a = {0}; ex.text = sample_cps(r, font, 24); p.ops.push_back(ex);
    if (r.chance(1, 3)) { Op pr = gen_probe(r, font, 12); p.ops.push_back(pr); }
    if (r.chance(1, 4)) { Op l; l.kind = "label"; l.a = {0, i64(r.below(8)), i64(r.below(3)) - 1, i64(1 << r.below(3)), 0x0409}; p.ops.push_back(l); }
    p.ops.push_back(mk("destroy_face", {0}));
    return p;
}

// ------------------------------------------------------------------------------------------ shape (C02, C03-C05)
static Plan gen_shape(u64 seed) {
    Rng r(seed); Plan p; p.mode = "shape"; p.seed = seed;
    std::string font = gen_font(r);
    const FontImage *fi = g_corpus.find(font);
    Op mf = gen_make_face(r, font, 60, true, false);
    bool want_runs = false;     // a cyclic state table only matters on long runs of the same characters
    if (!r.chance(1, 4)) {
        int n = 1 + (r.chance(1, 3) ? int(r.below(3)) : 0);
        for (int i = 0; i < n; ++i) {
            Fault f;
            u32 sel = r.below(100);
            if (sel < 35) { f = gen_code_fault(r, *fi); if (f.a.empty()) sel = 100; }
            else if (sel < 45) { f = gen_loop_fault(r, *fi); if (f.a.empty()) sel = 100; }
            else if (sel < 50) { f = gen_state_fault(r, *fi); if (f.a.empty()) sel = 100; else { sel = 0; want_runs = true; } }
            else if (sel < 58) {
                // re-map a character that the texts of this font really use (frequency-weighted), not a random cmap entry
                std::vector<u32> cand; const FontInfo &in = g_pool.info[font];
                if (!in.texts.empty()) { const std::vector<u32> &tf = g_pool.files[size_t(r.pick(in.texts))]; for (int q = 0; q < 6; ++q) { u32 c = tf[r.below(u32(tf.size()))]; if (c != ' ') cand.push_back(c); } }
                if (cand.empty()) cand = in.cps;
                f = gen_gid_fault(r, *fi, cand); if (f.a.empty()) sel = 100; else sel = 0;
            }
            if (sel >= 58) {
                for (int t = 0; t < 10; ++t) { f = gen_store_fault(r, *fi); if (f.kind == "BITROT" || f.kind == "SETBYTES" || f.kind == "TORN" || (f.kind == "TRUNCATE" && r.chance(1, 4))) break; }
                if (!(f.kind == "BITROT" || f.kind == "SETBYTES" || f.kind == "TORN" || f.kind == "TRUNCATE")) continue;
                if (r.chance(7, 10)) f.nth = -1;
            }
            mf.faults.push_back(f);
        }
    }
    p.ops.push_back(mf);
    if (r.chance(1, 2)) p.ops.push_back(mk("make_font", {0, i64(16 * (1 + r.below(200))), r.chance(1, 3) ? 1 : 0}));    // a[2]: hinted
    unsigned nseg = g_tier ? 4 + r.below(37) : 3 + r.below(8);
    for (unsigned i = 0; i < nseg; ++i) {
        Op o = gen_probe(r, font, text_max(r));
        if (r.chance(1, 3)) { // keep the segment alive for a while (make_seg form: a = face, fontsel, enc, dir, script, fvalsel)
            o.kind = "make_seg"; i64 enc = o.a[2], dir = o.a[3], script = o.a[4]; o.a = {0, r.chance(1, 2) ? 0 : -1, enc, dir, script, -1};
        }
        p.ops.push_back(o);
        if (r.chance(1, 6)) p.ops.push_back(mk("destroy_seg", {i64(r.below(8))}));
    }
    if (want_runs && !g_pool.info[font].cps.empty()) for (int q = 0; q < 3; ++q) {
        Op o; o.kind = "probe_seg"; o.a = {0, 0, i64(1 << r.below(3)), i64(r.below(8)), 0};
        const std::vector<u32> &cps = g_pool.info[font].cps; u32 a = r.pick(cps), b = r.pick(cps); size_t n = 70 + r.below(200);
        o.text.push_back(b); for (size_t k = 0; k < n; ++k) o.text.push_back(a);
        p.ops.push_back(o);
    }
    if (r.chance(1, 600) && !g_pool.info[font].big && !g_pool.info[font].cps.empty()) {
        // one very long text (more than 65536 characters): counters and indices that silently assume 16 bits
        Op o; o.kind = "probe_seg"; o.a = {0, 0, i64(1 << r.below(3)), i64(r.below(2)), 0};
        const std::vector<u32> &cps = g_pool.info[font].cps; u32 a = r.pick(cps), b = r.pick(cps); size_t n = 65600 + r.below(3000);
        for (size_t k = 0; k < n; ++k) o.text.push_back(k % 7 == 6 ? 0x20 : (k & 1 ? a : b));
        p.ops.push_back(o);
    }
    p.ops.push_back(mk("destroy_face", {0}));
    return p;
}

// ------------------------------------------------------------------------------------------ just (C19)
static void gen_just_ops(Rng &r, std::vector<Op> &ops, unsigned n, i64 seg) {
    for (unsigned i = 0; i < n; ++i) {
        if (r.chance(2, 5)) ops.push_back(mk("linebreak", {seg, i64(r.below(200))}));
        else {
            static const i64 widths[] = {-16, 0, 16, 16 * 50, 16 * 107, 16 * 1000, 16 * 100000, 1, 16 * 5000000ll};
            i64 w = r.chance(2, 3) ? widths[r.below(9)] : i64(r.below(16 * 3000));
            if (r.chance(1, 12)) w = -1000000 - i64(r.below(8));      // extreme widths (1e30 .. FLT_MAX, 1e-30, 2^48 ...)
            i64 fs = r.chance(1, 2) ? -1 : i64(r.below(200)), ls = r.chance(1, 2) ? -1 : i64(r.below(200));
            ops.push_back(mk("justify", {seg, i64(r.below(8)), w, i64(r.below(4)), fs, ls, r.chance(1, 2) ? 0 : -1, i64(r.below(2))}));
        }
    }
}
static Plan gen_just(u64 seed) {
    Rng r(seed); Plan p; p.mode = "just"; p.seed = seed;
    std::string font = gen_font(r);
    bool synth = r.chance(1, 4);     // synthesised rule program: attachments, line-end contextuals, justification levels
    if (synth) { static const char *bases[] = {"grtest1gr", "general", "PigLatinBenchmark_v3", "underflow", "Padauk", "charis_r_gr"}; font = bases[r.below(6)]; }
    Op mf = gen_make_face(r, font, 30, true, false);
    if (synth) { Fault f; f.kind = "OVR_SILFPROG"; f.tag = "Silf"; synth_program(r.next(), f.a); mf.faults.push_back(f); }
    p.ops.push_back(mf);
    if (r.chance(1, 2)) p.ops.push_back(mk("make_font", {0, i64(16 * (4 + r.below(100))), r.chance(1, 3) ? 1 : 0}));     // a[2]: hinted (advance callback)
    Op o; o.kind = "make_seg"; o.a = {0, r.chance(1, 2) ? 0 : -1, i64(1 << r.below(3)), i64(r.below(8)), 0, -1};
    o.text = synth ? synth_text(r, 30) : gen_text(r, font, g_tier ? 120 : 40, r.chance(1, 4));
    if (o.text.size() > 3 && r.chance(1, 2)) for (size_t k = 3 + r.below(5); k < o.text.size(); k += 3 + r.below(7)) o.text[k] = ' ';
    if (!synth && !o.text.empty()) {
        // rotten-but-accepted fonts under line breaking and justification: a character of this very text (often its last one) mapped
        // to a glyph id at or just behind the end of the font, or one instruction of the rule code changed
        const FontImage *fi = g_corpus.find(font); Fault f;
        if (fi && r.chance(1, 8)) { std::vector<u32> cand; for (int q = 0; q < 3; ++q) { u32 c = q == 0 ? o.text.back() : o.text[r.below(u32(o.text.size()))]; if (c != ' ' && c < 0x10000) cand.push_back(c); } if (!cand.empty()) f = gen_gid_fault(r, *fi, cand); }
        else if (fi && r.chance(1, 10)) f = gen_code_fault(r, *fi);
        if (!f.kind.empty() && !f.a.empty()) { f.nth = -1; p.ops[0].faults.push_back(f); }
    }
    p.ops.push_back(o);
    gen_just_ops(r, p.ops, 1 + r.below(g_tier ? 12 : 8), 0);
    p.ops.push_back(mk("destroy_seg", {0}));
    p.ops.push_back(mk("destroy_face", {0}));
    return p;
}

// ------------------------------------------------------------------------------------------ history ops (hist, borrow)
static void gen_history(Rng &r, const std::string &font, std::vector<Op> &ops, unsigned n, unsigned nfaces, bool allow_just) {
    for (unsigned i = 0; i < n; ++i) {
        i64 face = i64(r.below(nfaces));
        u32 k = r.below(100);
        if (k < 22) { Op o = gen_probe(r, font, text_max(r)); o.a[0] = face; ops.push_back(o); }
        else if (k < 40) { Op o; o.kind = "make_seg"; o.a = {face, r.chance(1, 2) ? i64(r.below(4)) : -1, i64(1 << r.below(3)), i64(r.below(8)), 0, r.chance(1, 3) ? i64(r.below(4)) : -1}; o.text = gen_text(r, font, text_max(r)); ops.push_back(o); }
        else if (k < 48) ops.push_back(mk("destroy_seg", {i64(r.below(8))}));
        else if (k < 54) { static const u32 langs[] = {0, 0x76696500, 0x76692020, 0x656E6700, 0x7A7A7A7A}; ops.push_back(mk("fval_lang", {face, i64(langs[r.below(5)])})); }
        else if (k < 58) ops.push_back(mk("fval_clone", {r.chance(1, 6) ? -1 : i64(r.below(6)), face}));
        else if (k < 64) ops.push_back(mk("fval_set", {i64(r.below(6)), i64(r.below(64)), r.chance(1, 2) ? i64(r.below(4)) : i64(r.below(70000) & 0xFFFF)}));
        else if (k < 67) ops.push_back(mk("fval_get", {i64(r.below(6)), i64(r.below(64))}));
        else if (k < 70) ops.push_back(mk("fval_destroy", {i64(r.below(6))}));
        else if (k < 78) ops.push_back(mk("label", {face, i64(r.below(64)), i64(r.below(4)) - 1, i64(1 << r.below(3)), r.chance(1, 2) ? 0x0409 : i64(r.below(0x10000))}));
        else if (k < 86) { Op o = mk("face_query", {face, i64(r.below(10)), i64(r.chance(1, 2) ? r.below(40) : u32(r.next()))}); if (o.a[1] == 9) o.a[1] = 10; if (o.a[1] == 7) o.text = sample_cps(r, font, 8); ops.push_back(o); }
        else if (k < 90) ops.push_back(mk("make_font", {face, i64(16 * (1 + r.below(300))), r.chance(1, 3) ? 1 : 0}));
        else if (k < 92) ops.push_back(mk("destroy_font", {i64(r.below(4))}));
        else if (allow_just) gen_just_ops(r, ops, 1 + r.below(3), i64(r.below(6)));
        else { Op o = mk("face_query", {face, 9, 0}); ops.push_back(o); }
    }
}

// ------------------------------------------------------------------------------------------ hist (C08)
static Plan gen_hist(u64 seed) {
    Rng r(seed); Plan p; p.mode = "hist"; p.seed = seed;
    g_pseudo_bias = 0;
    std::string font = gen_font(r);
    const bool synth = r.chance(1, 6);     // synthesised rule program: pass constraints and rule conditions that read features, user attributes, slot attributes
    if (synth) { static const char *bases[] = {"grtest1gr", "general", "PigLatinBenchmark_v3", "underflow", "Padauk", "charis_r_gr"}; font = bases[r.below(6)]; }
    const FontImage *fi = g_corpus.find(font);
    Op mf = gen_make_face(r, font, 55, true, false);
    if (synth) { Fault f; f.kind = "OVR_SILFPROG"; f.tag = "Silf"; synth_program(r.next(), f.a); mf.faults.push_back(f); }
    else if (r.chance(20, 100)) {   // rotten-but-accepted fonts (the twin sees the same bytes): lazily failing glyph reads, odd programs
        Fault f;
        if (r.chance(1, 2)) {    // glyph data: a glyph that fails to load lazily, again and again
            static const char *gt[] = {"glyf", "loca", "hmtx", "Glat", "Gloc"};
            for (int t = 0; t < 20; ++t) { f = gen_store_fault(r, *fi); bool ok = false; for (auto *g : gt) if (f.tag == g) ok = true; if (ok && (f.kind == "BITROT" || f.kind == "SETBYTES" || f.kind == "TORN")) break; f.kind.clear(); }
        } else if (r.chance(1, 3)) f = gen_code_fault(r, *fi);
        else if (r.chance(1, 2)) { f = gen_pseudo_fault(r, *fi); if (!f.a.empty()) g_pseudo_bias = 1; }
        else { for (int t = 0; t < 10; ++t) { f = gen_store_fault(r, *fi); if (f.kind == "BITROT" || f.kind == "SETBYTES") break; f.kind.clear(); } }
        if (!f.kind.empty() && !((f.kind == "CODEROT" || f.kind == "SETBYTES") && f.a.empty())) { f.nth = -1; mf.faults.push_back(f); }
    }
    p.ops.push_back(mf);
    Op rep = mk("face_query", {0, 9, 0}); rep.s = "report"; p.ops.push_back(rep);
    const bool shared_font = r.chance(1, 2);      // the probe uses a font that lived through the history (font-level caches)
    if (shared_font) { Op pf = mk("make_font", {0, i64(16 * (6 + r.below(120))), r.chance(1, 2) ? 1 : 0}); pf.s = "probe-font"; p.ops.push_back(pf); }
    gen_history(r, font, p.ops, r.below(g_tier ? 41 : 25), 1, true);
    Op pr = gen_probe(r, font, text_max(r)); pr.s = "probe";
    if (pr.a[1] > 0 && r.chance(1, 3)) pr.a[1] |= (1 << 20);      // hinted font (advance callback = pure function of the glyph id)
    if (r.chance(1, 2)) { std::vector<const Op *> withtext; for (auto &o : p.ops) if (!o.text.empty() && (o.kind == "make_seg" || o.kind == "probe_seg")) withtext.push_back(&o); if (!withtext.empty()) pr.text = withtext[r.below(u32(withtext.size()))]->text; }
    if (shared_font) { pr.kind = "job_seg"; pr.a[1] = 0; }
    if (g_pseudo_bias && g_pseudo_focus && g_pseudo_focus < 0x110000) { pr.text.insert(pr.text.begin() + long(r.below(u32(pr.text.size() + 1))), g_pseudo_focus); if (pr.text.size() < 2) pr.text.insert(pr.text.begin(), 0x61); }
    if (synth) { for (auto &o : p.ops) if (!o.text.empty() && (o.kind == "make_seg" || o.kind == "probe_seg" || o.kind == "job_seg")) o.text = synth_text(r, 24); pr.text = synth_text(r, 24); }
    if (!synth && r.chance(1, 10)) {
        // mirrored pairs: the probe holds one bracket of a pair and runs right-to-left without the bidi pass (direction flags 3 / 7: the
        // engine mirrors by itself); somewhere in the history the other bracket was shaped. Mirroring must not depend on that.
        static const u32 pairs[][2] = {{'(', ')'}, {'[', ']'}, {'{', '}'}, {'<', '>'}, {0xAB, 0xBB}, {0x2039, 0x203A}};
        const u32 *pp = pairs[r.below(6)]; const unsigned side = r.below(2);
        pr.text.insert(pr.text.begin() + long(r.below(u32(pr.text.size() + 1))), pp[side]);
        pr.text.erase(std::remove(pr.text.begin(), pr.text.end(), pp[1 - side]), pr.text.end());
        pr.a[3] = r.chance(1, 2) ? 3 : 7;
        Op h; h.kind = "make_seg"; h.a = {0, -1, 1, i64(r.below(8)), 0, -1}; h.text = {pp[1 - side], 0x20, pp[side], pp[1 - side]};
        if (p.ops.size() > 2) p.ops.insert(p.ops.begin() + long(2 + r.below(u32(p.ops.size() - 2))), h); else p.ops.push_back(h);
    }
    p.ops.push_back(pr); p.ops.push_back(pr); p.ops.push_back(rep);
    g_pseudo_bias = 0; g_pseudo_focus = 0;
    return p;
}

static void compare_results(const char *prop, const char *what, const OpResult &a, const OpResult &b, const std::string &ctx) {
    if (a.kind == b.kind && a.v == b.v) return;
    std::string d;
    if (a.kind == "seg" && b.kind == "seg") d = dump_diff(a.v, b.v);
    else { size_t i = 0; while (i < a.v.size() && i < b.v.size() && a.v[i] == b.v[i]) ++i; d = strf("kind %s/%s, first difference at field %zu: %lld vs %lld (sizes %zu/%zu)", a.kind.c_str(), b.kind.c_str(), i, (long long)(i < a.v.size() ? a.v[i] : -1), (long long)(i < b.v.size() ? b.v[i] : -1), a.v.size(), b.v.size()); }
    violation(std::string(prop) + ":" + what, ctx + ": " + d);
}

static void run_hist(const Plan &p) {
    std::vector<OpResult> ra, rb;
    {
        World a; a.id = 1; a.leak_prop = "C08"; a.override_fn = all_overrides;
        for (auto &op : p.ops) { OpResult r = exec_ext(a, op); if (op.s == "probe" || op.s == "report") ra.push_back(r); if (op.kind == "make_face" && r.v.size() && !r.v[0]) break; }
    }
    {
        World b; b.id = 2; b.leak_prop = "C08"; b.override_fn = all_overrides;
        bool first = true;
        for (auto &op : p.ops) { if (op.kind == "make_face" && first) { OpResult r = exec_ext(b, op); first = false; if (r.v.size() && !r.v[0]) break; continue; } if (op.s == "probe-font") exec_ext(b, op); else if (op.s == "probe" || op.s == "report") rb.push_back(exec_ext(b, op)); }
    }
    if (ra.size() != rb.size()) { if (ra.size() > 0 || rb.size() > 0) violation("C08:face-acceptance-differs", strf("history world produced %zu probe results, twin %zu", ra.size(), rb.size())); return; }
    for (size_t i = 0; i < ra.size(); ++i) {
        if (ra[i].kind == "skip") continue;
        compare_results("C08", ra[i].kind == "seg" ? "probe-differs-from-fresh-twin" : "self-report-differs-from-fresh-twin", ra[i], rb[i], strf("marked op %zu", i));
    }
    // within one world: repeated probe / repeated report identical
    for (size_t i = 0; i < ra.size(); ++i) for (size_t j = i + 1; j < ra.size(); ++j)
        if (ra[i].kind == ra[j].kind && ra[i].kind != "skip") compare_results("C08", ra[i].kind == "seg" ? "repeat-differs" : "self-report-changed", ra[i], ra[j], strf("marked ops %zu and %zu on the same face", i, j));
    quiescence_check("C08");
}

// ------------------------------------------------------------------------------------------ conf (C10)
static Plan gen_conf(u64 seed) {
    Rng r(seed); Plan p; p.mode = "conf"; p.seed = seed;
    std::string font = gen_font(r);
    if (r.chance(1, 6)) { static const char *coll[] = {"AwamiNastaliq-Regular", "Awami_test", "Awami_compressed_test"}; font = coll[r.below(3)]; }   // collision fixing, exclusion glyphs, octaboxes: only these fonts
    Op ref; ref.kind = "make_face"; ref.s = font; ref.a = {0, 0, 0, 0, 0}; p.ops.push_back(ref);
    unsigned k = 1 + r.below(3);
    for (unsigned i = 0; i < k; ++i) p.ops.push_back(gen_make_face(r, font, 0, true, true));
    for (size_t i = 1; i < p.ops.size(); ++i) p.ops[i].a[2] &= 7;     // only defined option bits: the property speaks of the documented options
    bool cmap01 = false, namefmt1 = false;
    {   // a legal variant of the font's storage, the same for every face of the plan
        u32 v = r.below(16);
        const bool awami = font.find("Awami") == 0;
        if ((awami && v < 4) || v == 0) { Fault f; f.kind = "OVR_NOSUBBOX"; f.tag = "Glat"; for (auto &o : p.ops) o.faults.push_back(f); }
        else if (v == 3) { Fault f; f.kind = "OVR_NAMEFMT1"; f.tag = "name"; for (auto &o : p.ops) o.faults.push_back(f); namefmt1 = true; }
        else if (v == 1 || v == 2) { Fault f; f.kind = "OVR_CMAP01"; f.tag = "cmap"; for (auto &o : p.ops) o.faults.push_back(f); cmap01 = true; }
    }
    unsigned n = g_tier ? 5 + r.below(26) : 4 + r.below(10);
    if (namefmt1) for (int q = 0; q < 3; ++q) p.ops.push_back(mk("label", {0, i64(r.below(8)), i64(r.below(3)) - 1, i64(1 << r.below(3)), 0x0409}));
    if (cmap01) { Op o = mk("face_query", {0, 7, 0}); o.text = {0, 1, 2, 3, 0xFFFF, 0x10000}; p.ops.push_back(o); }     // the lowest code points: is every one of them reported alike?
    for (unsigned i = 0; i < n; ++i) {
        u32 c = r.below(10);
        if (c < 6) p.ops.push_back(gen_probe(r, font, text_max(r)));
        else if (c < 7) p.ops.push_back(mk("face_query", {0, 9, 0}));
        else if (c < 9) { Op o = mk("face_query", {0, 7, 0}); o.text = sample_cps(r, font, 32); p.ops.push_back(o); }
        else p.ops.push_back(mk("label", {0, i64(r.below(64)), i64(r.below(4)) - 1, i64(1 << r.below(3)), 0x0409}));
    }
    return p;
}

static void run_conf(const Plan &p) {
    std::vector<const Op *> faces, ops;
    for (auto &op : p.ops) { if (op.kind == "make_face" && ops.empty()) faces.push_back(&op); else ops.push_back(&op); }
    std::vector<OpResult> ref;
    for (size_t c = 0; c < faces.size(); ++c) {
        World w; w.id = int(c) + 1; w.leak_prop = "C10"; w.override_fn = all_overrides;
        OpResult mf = exec_ext(w, *faces[c]);
        bool loaded = mf.v.size() && mf.v[0];
        if (c == 0 && !loaded) return;      // reference does not load: nothing to compare (not a well-formed font)
        if (!loaded) { violation("C10:config-rejected", strf("font %s loads with default options from callbacks but not with config #%zu (source=%lld options=%lld ctor=%lld)", faces[c]->s.c_str(), c, (long long)faces[c]->arg(0), (long long)faces[c]->arg(2), (long long)faces[c]->arg(1))); continue; }
        for (size_t i = 0; i < ops.size(); ++i) {
            OpResult r = exec_ext(w, *ops[i]);
            if (c == 0) ref.push_back(r);
            else compare_results("C10", r.kind == "seg" ? "segment-differs-across-options" : "answer-differs-across-options", ref[i], r, strf("op %zu (%s) config #%zu (source=%lld options=%lld)", i, ops[i]->kind.c_str(), c, (long long)faces[c]->arg(0), (long long)faces[c]->arg(2)));
            if (violated()) break;
        }
    }
    quiescence_check("C10");
}

// ------------------------------------------------------------------------------------------ borrow (C16)
static Plan gen_borrow(u64 seed) {
    Rng r(seed); Plan p; p.mode = "borrow"; p.seed = seed;
    unsigned nfaces = 1 + (r.chance(1, 2) ? r.below(3) : 0);
    std::string font = gen_font(r);
    for (unsigned i = 0; i < nfaces; ++i) {
        std::string fnt = r.chance(2, 3) ? font : gen_font(r);
        const FontImage *fi = g_corpus.find(fnt);
        Op mf = gen_make_face(r, fnt, 0, true, true);
        if (r.chance(1, 3)) mf.a[2] = 6 | (r.below(2));
        if (r.chance(7, 10)) gen_faults(r, *fi, int(mf.a[0]), mf.faults, 3);
        p.ops.push_back(mf);
        if (r.chance(1, 3)) gen_history(r, fnt, p.ops, r.below(5), i + 1, true);
    }
    gen_history(r, font, p.ops, 2 + r.below(g_tier ? 30 : 14), nfaces, true);
    if (r.chance(1, 2)) { Op ex; ex.kind = "face_exercise"; ex.a = {i64(r.below(nfaces))}; ex.text = sample_cps(r, font, 8); p.ops.insert(p.ops.begin() + long(nfaces + r.below(u32(p.ops.size() - nfaces + 1))), ex); }
    // destruction in a random order; feature values may outlive everything
    unsigned nd = 1 + r.below(2 * nfaces + 2);
    for (unsigned i = 0; i < nd; ++i) {
        u32 k = r.below(10);
        if (k < 4) p.ops.push_back(mk("destroy_face", {i64(r.below(4))}));
        else if (k < 6) p.ops.push_back(mk("destroy_seg", {i64(r.below(8))}));
        else if (k < 7) p.ops.push_back(mk("destroy_font", {i64(r.below(4))}));
        else if (k < 8) p.ops.push_back(mk("fval_destroy", {i64(r.below(4))}));
        else gen_history(r, font, p.ops, 1, nfaces, false);
    }
    return p;
}

// single-fault sweep: index -> (font, options, tag, nth, kind)
static const char *SWEEP_TAGS[] = {"Silf", "Glat", "Gloc", "Feat", "Sill", "name", "cmap", "head", "hhea", "hmtx", "maxp", "loca", "glyf"};
static const char *SWEEP_KINDS[] = {"MISSING", "NULL_WITH_LEN", "ZERO_LEN", "LEN_UNTOUCHED", "TRUNCATE", "TRUNCATE", "SETBYTES", "TORN"};
static size_t sweep_size() { return g_pool.font_names.size() * 8 * 13 * 2 * 8; }
static Plan gen_sweep(u64 index) {
    Plan p; p.mode = "sweep"; p.seed = index;
    u64 x = index % sweep_size();
    unsigned kind = unsigned(x % 8); x /= 8; unsigned nth = unsigned(x % 2); x /= 2; unsigned tag = unsigned(x % 13); x /= 13; unsigned opt = unsigned(x % 8); x /= 8;
    const std::string &font = g_pool.font_names[size_t(x % g_pool.font_names.size())];
    const FontImage *fi = g_corpus.find(font);
    Rng r(mix64(index, 77));
    Op mf; mf.kind = "make_face"; mf.s = font; mf.a = {0, 0, i64(opt), 0, 0};
    Fault f; f.kind = SWEEP_KINDS[kind]; f.tag = SWEEP_TAGS[tag]; f.nth = nth;
    auto it = fi->tables.find(mktag(f.tag.c_str())); size_t sz = it == fi->tables.end() ? 0 : it->second.size();
    if (kind == 4) f.a = {i64(sz ? sz - 1 : 0)};                // one byte short
    else if (kind == 5) f.a = {i64(r.below(u32(sz < 64 ? sz + 1 : 64)))};  // cut inside the header: CheckTable fails
    else if (kind == 6) f.a = {0, 0xFF, 1, 0xFF, 2, 0xFF, 3, 0xFF};   // version word 0xFFFFFFFF
    else if (kind == 7) f.a = {0, i64(sz < 4096 ? sz : 4096), 0};
    mf.faults.push_back(f);
    p.ops.push_back(mf);
    Op ex; ex.kind = "face_exercise"; ex.a = {0}; ex.text = sample_cps(r, font, 4); p.ops.push_back(ex);
    p.ops.push_back(gen_probe(r, font, 10, false));
    p.ops.push_back(mk("label", {0, 0, -1, 1, 0x0409}));
    p.ops.push_back(mk("label", {0, 1, 0, 2, 0x0409}));
    p.ops.push_back(mk("destroy_face", {0}));
    return p;
}

// ------------------------------------------------------------------------------------------ generic single-world runner
static void run_generic(const Plan &p, const char *prop, bool exercise) {
    {
        World w; w.id = 1; w.leak_prop = prop; w.exercise_segs = exercise; w.override_fn = all_overrides;
        for (auto &op : p.ops) { exec_ext(w, op); }
        w.destroy_all();
    }
    quiescence_check(prop);
}

// ------------------------------------------------------------------------------------------ dispatch
Plan generate(const std::string &mode, u64 seed, u64 index) {
    if (mode == "load") return gen_load(seed);
    if (mode == "shape") return gen_shape(seed);
    if (mode == "just") return gen_just(seed);
    if (mode == "hist") return gen_hist(seed);
    if (mode == "conf") return gen_conf(seed);
    if (mode == "borrow") return gen_borrow(seed);
    if (mode == "sweep") return gen_sweep(index);
    if (mode == "feat") return gen_feat(seed);
    if (mode == "lz4") return gen_lz4(seed);
    if (mode == "lz4c") return gen_lz4c(seed);
    if (mode == "conc") return gen_conc(seed);
    if (mode == "concneg") return gen_concneg(seed);
    if (mode == "fuzzreg") return gen_fuzzreg(index);
    if (mode == "synth") return gen_synth(seed);
    Plan p; return p;
}

RunResult execute(const Plan &p, bool tracing) {
    run_reset(tracing);
    alloc_reset();
    g_nontrivial = false;
    u64 s0 = g_steps;
    Hasher ph; ph.s(p.mode); g_run.log.u(ph.h);
    if (p.mode == "load") run_generic(p, "C01", false);
    else if (p.mode == "shape" || p.mode == "fuzzreg" || p.mode == "synth") run_generic(p, "C02", true);
    else if (p.mode == "just") run_generic(p, "C19", false);
    else if (p.mode == "borrow" || p.mode == "sweep") run_generic(p, "C16", false);
    else if (p.mode == "hist") run_hist(p);
    else if (p.mode == "conf") run_conf(p);
    else if (p.mode == "feat") run_feat(p);
    else if (p.mode == "lz4") run_lz4(p);
    else if (p.mode == "lz4c") run_lz4c(p);
    else if (p.mode == "conc") run_conc(p);
    else if (p.mode == "concneg") run_concneg(p);
    RunResult r; r.cls = g_run.viol_class; r.detail = g_run.viol_detail; r.hash = g_run.log.h; r.steps = g_steps - s0; r.nontrivial = g_nontrivial; r.events = g_run.events;
    return r;
}

} // namespace sim
