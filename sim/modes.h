#pragma once
#include "exec.h"
#include "textpool.h"

namespace sim {

struct RunResult {
    std::string cls, detail;     // empty cls = no violation
    u64 hash = 0;                // event-log hash
    u64 steps = 0;               // simulated time consumed
    bool nontrivial = false;
    u64 events = 0;
};

extern bool g_nontrivial;        // set by executors when the run got past load and exercised an operation under test
extern int g_tier;               // 0 quick, 1 thorough

Plan generate(const std::string &mode, u64 seed, u64 index);
RunResult execute(const Plan &p, bool tracing);
OpResult exec_ext(World &w, const Op &op);   // World::exec plus the exercise scripts

// mode implementations living in other files
Plan gen_feat(u64 seed); void run_feat(const Plan &p);
Plan gen_lz4(u64 seed);  void run_lz4(const Plan &p);
Plan gen_lz4c(u64 seed); void run_lz4c(const Plan &p);
Plan gen_conc(u64 seed); void run_conc(const Plan &p);
Plan gen_concneg(u64 seed); void run_concneg(const Plan &p);
Plan gen_fuzzreg(u64 index);
Plan gen_synth(u64 seed);
void synth_program(u64 seed, std::vector<i64> &out);
std::vector<u32> synth_text(Rng &r, unsigned maxlen);
void silf_override(Store &st, const Fault &f);
size_t fuzzreg_count();
void feat_override(Store &st, const Fault &f);
void lz4_override(Store &st, const Fault &f);
void all_overrides(Store &st, const Fault &f);

// shared generator pieces
Op gen_make_face(Rng &r, const std::string &font, int lazy_bias, bool allow_file, bool knobs);
Op gen_probe(Rng &r, const std::string &font, size_t maxlen, bool adversarial = true);

} // namespace sim
