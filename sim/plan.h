// The Plan: everything that decides one simulated run. The executor interprets only this.
#pragma once
#include "util.h"

struct Fault {
    std::string kind;      // MISSING NULL_WITH_LEN ZERO_LEN TRUNCATE BITROT TORN REFETCH_DIFFERS LEN_UNTOUCHED | file: FOPEN_FAIL FSEEK_FAIL FTELL_MINUS1 FREAD_SHORT FREAD_ZERO FILE_TRUNCATED DIR_BITROT
    std::string tag;       // table tag (store faults) or function name (file faults)
    i64 nth = 0;           // n-th request of that tag / n-th call of that function (0-based); -1 = every request
    std::vector<i64> a;    // parameters (offsets/values ...)
};

struct Op {
    std::string kind;
    std::vector<i64> a;          // integer arguments (meaning per kind)
    std::vector<u32> text;       // text items (scalar values or ILL items, see text.h) / code-point samples
    std::vector<Fault> faults;   // faults attached to this op (make_face ops)
    std::string s;               // string argument (font name ...)
    i64 arg(size_t i, i64 d = 0) const { return i < a.size() ? a[i] : d; }
};

struct Plan {
    std::string mode;
    u64 seed = 0;
    std::vector<Op> ops;
    std::vector<i64> sched;      // conc: [kind, param, sched_seed, nfibers]
    std::string expect;          // replay files: expected violation class
    std::string note;
};

static inline JP ints_json(const std::vector<i64> &v) { JP a = J::mkarr(); for (i64 x : v) a->a.push_back(J::mkint(x)); return a; }
static inline std::vector<i64> json_ints(const JP &j) { std::vector<i64> v; if (j && j->k == J::ARR) for (auto &x : j->a) v.push_back(x ? x->i : 0); return v; }

static inline JP plan_to_json(const Plan &p) {
    JP j = J::mkobj();
    j->set("mode", J::mkstr(p.mode));
    j->set("seed", J::mkstr(std::to_string(p.seed)));   // as string: u64 does not fit every JSON reader
    if (!p.expect.empty()) j->set("expect", J::mkstr(p.expect));
    if (!p.note.empty()) j->set("note", J::mkstr(p.note));
    if (!p.sched.empty()) j->set("sched", ints_json(p.sched));
    JP ops = J::mkarr();
    for (auto &o : p.ops) {
        JP jo = J::mkobj();
        jo->set("op", J::mkstr(o.kind));
        if (!o.s.empty()) jo->set("s", J::mkstr(o.s));
        if (!o.a.empty()) jo->set("a", ints_json(o.a));
        if (!o.text.empty()) { std::vector<i64> t(o.text.begin(), o.text.end()); jo->set("text", ints_json(t)); }
        if (!o.faults.empty()) {
            JP fa = J::mkarr();
            for (auto &f : o.faults) {
                JP jf = J::mkobj();
                jf->set("kind", J::mkstr(f.kind)); jf->set("tag", J::mkstr(f.tag)); jf->set("nth", J::mkint(f.nth));
                if (!f.a.empty()) jf->set("a", ints_json(f.a));
                fa->a.push_back(jf);
            }
            jo->set("faults", fa);
        }
        ops->a.push_back(jo);
    }
    j->set("ops", ops);
    return j;
}

static inline bool plan_from_json(const JP &j, Plan &p) {
    if (!j || j->k != J::OBJ) return false;
    p.mode = j->gets("mode");
    JP sd = j->get("seed");
    p.seed = sd ? (sd->k == J::STR ? strtoull(sd->s.c_str(), 0, 10) : u64(sd->i)) : 0;
    p.expect = j->gets("expect"); p.note = j->gets("note");
    p.sched = json_ints(j->get("sched"));
    JP ops = j->get("ops");
    if (ops && ops->k == J::ARR) for (auto &jo : ops->a) {
        if (!jo || jo->k != J::OBJ) continue;
        Op o; o.kind = jo->gets("op"); o.s = jo->gets("s"); o.a = json_ints(jo->get("a"));
        for (i64 t : json_ints(jo->get("text"))) o.text.push_back(u32(t));
        JP fa = jo->get("faults");
        if (fa && fa->k == J::ARR) for (auto &jf : fa->a) {
            if (!jf || jf->k != J::OBJ) continue;
            Fault f; f.kind = jf->gets("kind"); f.tag = jf->gets("tag"); f.nth = jf->geti("nth"); f.a = json_ints(jf->get("a"));
            o.faults.push_back(f);
        }
        p.ops.push_back(o);
    }
    return !p.mode.empty();
}

static inline std::string plan_str(const Plan &p) { std::string s; json_write(s, plan_to_json(p)); return s; }
static inline u64 plan_hash(const Plan &p) { Plan q = p; q.seed = 0; q.expect.clear(); q.note.clear(); Hasher h; h.s(plan_str(q)); return h.h; }
