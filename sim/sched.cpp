// C09: a preloaded face and unhinted fonts shared by concurrent shapers.
// SimSched: caller "threads" are ucontext fibers on one OS thread, registered with ThreadSanitizer through its
// fiber API and switched with the no-sync flag, so TSan sees unsynchronised threads although exactly one runs
// at a time and the seed decides who. Preemption points: every instrumented edge of the library.
#include "modes.h"
#include <ucontext.h>
#include <sys/mman.h>

#ifdef GRSIM_TSAN_BUILD
extern "C" {
void *__tsan_get_current_fiber(void);
void *__tsan_create_fiber(unsigned flags);
void __tsan_destroy_fiber(void *fiber);
void __tsan_switch_to_fiber(void *fiber, unsigned flags);
int __tsan_get_report_data(void *report, const char **description, int *count, int *stack_count, int *mop_count, int *loc_count, int *mutex_count, int *thread_count, int *unique_tid_count, void **sleep_trace, unsigned long trace_size);
int __tsan_get_report_mop(void *report, unsigned long idx, int *tid, void **addr, int *size, int *write, int *atomic, void **trace, unsigned long trace_size);
void __sanitizer_symbolize_pc(void *pc, const char *fmt, char *out_buf, size_t out_buf_size);
}
static const unsigned TSAN_NO_SYNC = 1u << 0;
#endif

namespace sim {

extern void (*g_sched_hook)(u32 guard);
extern u64 g_sched_at;
void recompute_horizon();

// ------------------------------------------------------------------------------------------ race report capture
// The hook runs inside ThreadSanitizer's report path: it must not allocate or free (a free of memory last touched
// by another fiber would itself be reported and deadlock on TSan's report mutex). Fixed-size storage only.
struct RaceRep { char desc[64]; char where[2][200]; int write[2]; int tid[2]; bool library; };
static RaceRep g_races[8];
static unsigned g_nraces = 0;
static u64 g_race_count = 0, g_harness_reports = 0;

} // namespace sim

#ifdef GRSIM_TSAN_BUILD
extern "C" NOTSAN void __tsan_on_report(void *rep) {
    using namespace sim;
    const char *desc = 0; int count, stack_count, mop_count = 0, loc_count, mutex_count, thread_count, unique; void *sleep[1];
    __tsan_get_report_data(rep, &desc, &count, &stack_count, &mop_count, &loc_count, &mutex_count, &thread_count, &unique, sleep, 1);
    RaceRep r; memset(&r, 0, sizeof r); snprintf(r.desc, sizeof r.desc, "%s", desc ? desc : "?"); r.tid[0] = r.tid[1] = -1; r.library = false;
    for (int i = 0; i < mop_count && i < 2; ++i) {
        int tid = 0, size = 0, write = 0, atomic = 0; void *addr = 0; void *trace[16] = {0};
        __tsan_get_report_mop(rep, (unsigned long)i, &tid, &addr, &size, &write, &atomic, trace, 16);
        r.write[i] = write; r.tid[i] = tid;
        snprintf(r.where[i], sizeof r.where[i], "?");
        for (int k = 0; k < 16 && trace[k]; ++k) {
            char buf[512]; buf[0] = 0;
            __sanitizer_symbolize_pc(trace[k], "%f %s:%l", buf, sizeof buf);
            // innermost frame that lies in the library's sources
            const char *src = strstr(buf, "/src/"); const char *inc = strstr(buf, "/include/graphite2/");
            if (strstr(buf, "/verif/sim/") || (!src && !inc)) continue;
            r.library = true;
            char *sp = strrchr(buf, ' '); const char *loc = sp ? sp + 1 : ""; if (sp) *sp = 0;
            const char *sl = strrchr(loc, '/'); if (sl) loc = sl + 1;
            char *par = strchr(buf, '('); if (par) *par = 0;
            snprintf(r.where[i], sizeof r.where[i], "%s@%s", buf, loc);
            break;
        }
    }
    if (!r.library) { ++g_harness_reports; return; }     // no library frame in either access: harness memory (e.g. a free), not the property
    ++g_race_count;
    if (g_nraces < 8) g_races[g_nraces++] = r;
}
#endif

namespace sim {

// ------------------------------------------------------------------------------------------ fibers
struct Fiber {
    ucontext_t ctx; void *stack = 0; void *tsan = 0; bool done = false, started = false;
    // per-fiber simulator state, swapped at every switch
    int inlib = 0, incallback = 0, track = 0; u64 deadline = ~0ull; const char *api = "";
    std::vector<const Op *> jobs; std::vector<OpResult> results;
    int prio = 0;
};
static const size_t STACK_SZ = 2u << 20;
static std::vector<Fiber *> g_fibers;     // workers
static Fiber g_main;
static Fiber *g_cur = 0;
static World *g_world = 0;
static Rng g_srng(0);
static int g_skind = 0; static u64 g_sparam = 0;
static std::vector<u64> g_changepoints; static size_t g_cp_next = 0;
static u64 g_switches = 0;
static std::set<u64> *g_sites = 0;        // distinct (fiber, guard) preemption sites
static u64 g_conc_t0 = 0;

NOTSAN static void save_state(Fiber *f) { f->inlib = g_inlib; f->incallback = g_incallback; f->track = g_track; f->deadline = g_deadline; f->api = g_api_name; }
NOTSAN static void load_state(Fiber *f) { g_inlib = f->inlib; g_incallback = f->incallback; g_track = f->track; g_deadline = f->deadline; g_api_name = f->api; recompute_horizon(); }

NOTSAN static void switch_to(Fiber *to, bool sync) {
    Fiber *from = g_cur;
    if (to == from) return;
    save_state(from);
    g_cur = to;
    load_state(to);
    ++g_switches;
    event("switch", u64(from == &g_main ? 99 : std::find(g_fibers.begin(), g_fibers.end(), from) - g_fibers.begin()), u64(to == &g_main ? 99 : std::find(g_fibers.begin(), g_fibers.end(), to) - g_fibers.begin()));
#ifdef GRSIM_TSAN_BUILD
    __tsan_switch_to_fiber(to->tsan, sync ? 0 : TSAN_NO_SYNC);
#else
    (void)sync;
#endif
    swapcontext(&from->ctx, &to->ctx);
}

NOTSAN static Fiber *pick_runnable(Fiber *except) {
    std::vector<Fiber *> r; for (auto *f : g_fibers) if (!f->done && f != except) r.push_back(f);
    if (r.empty()) return 0;
    if (g_skind == 1) { Fiber *b = r[0]; for (auto *f : r) if (f->prio > b->prio) b = f; return b; }
    return r[g_srng.below(u32(r.size()))];
}

NOTSAN static void schedule_next_preemption() {
    if (g_skind == 0) {           // uniform random preemption, mean gap g_sparam edges
        u64 gap = 1 + g_srng.below(u32(2 * g_sparam));
        g_sched_at = g_steps + gap;
    } else if (g_skind == 1) {    // PCT: switch only at priority change points
        g_sched_at = g_cp_next < g_changepoints.size() ? g_conc_t0 + g_changepoints[g_cp_next] : ~0ull;
    } else g_sched_at = ~0ull;    // burst: only at job boundaries
    recompute_horizon();
}

NOTSAN static void on_edge(u32 guard) {
    if (g_cur == &g_main || g_incallback > 0) { schedule_next_preemption(); if (g_sched_at <= g_steps) { g_sched_at = g_steps + 1000; recompute_horizon(); } return; }
    size_t me = size_t(std::find(g_fibers.begin(), g_fibers.end(), g_cur) - g_fibers.begin());
    if (g_sites) { ++g_incallback; g_sites->insert((u64(me) << 32) | guard); --g_incallback; }
    Fiber *to = 0;
    if (g_skind == 1) {
        ++g_cp_next;
        int lowest = 0; for (auto *f : g_fibers) if (f->prio < lowest) lowest = f->prio;
        g_cur->prio = lowest - 1;
        to = pick_runnable(0);
    } else to = pick_runnable(g_cur);
    schedule_next_preemption();
    if (to && to != g_cur) switch_to(to, false);
}

// job boundary (harness code, between two API calls of one worker)
NOTSAN static void yield_point() {
    if (g_skind != 2) return;
    if (!g_srng.chance(u32(g_sparam), 100)) return;
    Fiber *to = pick_runnable(g_cur);
    if (to) switch_to(to, false);
}

// Intercepted synchronisation point (an atomic operation executed by library code; TSan flavour only, see the wrappers at the end of
// this file): the scheduler may hand the processor to another worker *before* the operation takes effect. Edge-granular preemption
// cannot separate two atomic accesses of one basic block; this can.
static u64 g_sync_points = 0;
NOTSAN void sched_sync_point() {
    if (!g_cur || g_cur == &g_main || g_incallback > 0 || g_inlib == 0) return;
    ++g_sync_points;
    if (!g_srng.chance(1, 2)) return;
    Fiber *to = pick_runnable(g_cur);
    if (to && to != g_cur) switch_to(to, false);
}

static void fiber_main(unsigned lo, unsigned hi) {
    Fiber *self = (Fiber *)((u64(hi) << 32) | lo);
    for (size_t j = 0; j < self->jobs.size(); ++j) {
        self->results.push_back(g_world->exec(*self->jobs[j]));
        yield_point();
    }
    self->done = true;
    // join edge: everything this worker did happens-before whatever the main fiber does next
    switch_to(&g_main, true);
    abort();   // never resumed
}

// ------------------------------------------------------------------------------------------ generator
Plan gen_conc(u64 seed) {
    Rng r(seed); Plan p; p.mode = "conc"; p.seed = seed;
    std::string font = gen_font(r);
    if (r.chance(1, 4)) { static const char *coll[] = {"AwamiNastaliq-Regular", "Awami_test", "Awami_compressed_test"}; font = coll[r.below(3)]; }   // collision fixing / kerning code runs only on these
    const bool synth = r.chance(1, 8);     // a synthesised rule program (expressions reading features and attributes, constraints, pre-context) under the scheduler
    if (synth) { static const char *bases[] = {"grtest1gr", "general", "PigLatinBenchmark_v3", "underflow", "Padauk", "charis_r_gr"}; font = bases[r.below(6)]; }
    Op mf; mf.kind = "make_face"; mf.s = font; mf.a = {0, 0, i64(6 | r.below(2)), 0, 0};
    if (synth) { Fault f; f.kind = "OVR_SILFPROG"; f.tag = "Silf"; synth_program(r.next(), f.a); mf.faults.push_back(f); }
    else if (r.chance(1, 5)) {
        // a preloaded face built from damaged (but stable) bytes: if the constructor accepts it, it must be as immutable as a
        // healthy one - no fallback to on-demand loading of whatever could not be read during the preload
        const FontImage *fi = g_corpus.find(font); Fault f;
        static const char *gt[] = {"glyf", "loca", "hmtx", "Glat", "Gloc", "Silf", "cmap"};
        for (int t = 0; fi && t < 30; ++t) { f = gen_store_fault(r, *fi); bool ok = false; for (auto *g : gt) if (f.tag == g) ok = true; if (ok && (f.kind == "BITROT" || f.kind == "SETBYTES" || f.kind == "TORN")) break; f.kind.clear(); }
        if (fi && r.chance(1, 3)) {     // the last glyph's attribute run points behind Glat: only a trailing, unused glyph is unreadable
            auto gl = fi->tables.find(mktag("Gloc"));
            if (gl != fi->tables.end() && gl->second.size() > 12) { const Bytes &o = gl->second; bool lng = (be16(&o[4]) & 1) != 0; size_t w = lng ? 4 : 2, pos = o.size() - w - 2 * size_t(be16(&o[4]) & 2 ? be16(&o[6]) : 0);
                if (pos > 8 && pos + w <= o.size()) { f = Fault(); f.kind = "SETBYTES"; f.tag = "Gloc"; for (size_t q = 0; q < w; ++q) { f.a.push_back(i64(pos + q)); f.a.push_back(q == 0 ? 0x7F : 0xFF); } } }
        }
        if (!f.kind.empty() && !f.a.empty()) { f.nth = -1; mf.faults.push_back(f); }
    }
    p.ops.push_back(mf);
    unsigned nfonts = r.below(3);
    for (unsigned i = 0; i < nfonts; ++i) { Op o; o.kind = "make_font"; o.a = {0, i64(16 * (6 + r.below(90)))}; p.ops.push_back(o); }
    unsigned nf = 2 + r.below(3);
    std::vector<u32> shared_text = synth ? synth_text(r, 24) : gen_text(r, font, 30, false);
    for (unsigned f = 0; f < nf; ++f) {
        unsigned nj = g_tier ? 3 + r.below(10) : 2 + r.below(5);
        for (unsigned j = 0; j < nj; ++j) {
            Op o; u32 k = r.below(100);
            if (k < 70) {
                o = gen_probe(r, font, g_tier ? 60 : 24, true); o.kind = "job_seg";
                o.a[1] = nfonts && r.chance(2, 3) ? i64(r.below(nfonts)) : -1;
                if (synth) o.text = synth_text(r, 24);
                if (r.chance(1, 3)) o.text = shared_text;       // the same text in several workers: same glyphs, same cache lines
            }
            else if (k < 80) { o.kind = "label"; o.a = {0, i64(r.below(64)), i64(r.below(4)) - 1, i64(1 << r.below(3)), 0x0409}; }
            else if (k < 86) { o.kind = "face_query"; o.a = {0, i64(r.below(9)), i64(r.below(40))}; if (o.a[1] == 7) o.text = sample_cps(r, font, 12); }
            else if (k < 92) { o.kind = "face_query"; o.a = {0, 10, i64(r.below(64))}; }     // find a feature by its own id (different workers ask for different features)
            else { o.kind = "face_query"; o.a = {0, 8, i64(r.chance(1, 2) ? 0x76696500 : 0)}; }
            o.s = "f" + std::to_string(f);
            p.ops.push_back(o);
        }
    }
    u32 kind = r.below(10);
    static const i64 gaps[] = {3, 30, 300, 3000, 30000};
    if (kind < 5) p.sched = {0, gaps[r.below(5)], i64(r.next() >> 16)};
    else if (kind < 8) p.sched = {1, i64(1 + r.below(4)), i64(r.next() >> 16)};
    else p.sched = {2, i64(30 + r.below(71)), i64(r.next() >> 16)};
    return p;
}

// ------------------------------------------------------------------------------------------ runner
static void run_conc_impl(const Plan &p, bool negctl) {
    std::vector<const Op *> setup; std::map<int, std::vector<const Op *>> jobs;
    for (auto &op : p.ops) { if (op.s.size() >= 2 && op.s[0] == 'f' && isdigit(op.s[1])) jobs[atoi(op.s.c_str() + 1)].push_back(&op); else if (op.kind == "make_face" || op.kind == "make_font") setup.push_back(&op); }
    if (jobs.empty() || setup.empty()) return;
    // reference: a twin world runs every worker's jobs sequentially
    std::map<int, std::vector<OpResult>> ref;
    {
        World b; b.id = 2; b.leak_prop = "C09"; b.override_fn = all_overrides; b.concurrent = true;
        for (auto *op : setup) { OpResult r = b.exec(*op); if (op->kind == "make_face" && !(r.v.size() && r.v[0])) return; }
        for (auto &j : jobs) for (auto *op : j.second) ref[j.first].push_back(b.exec(*op));
    }
    if (violated()) return;
    World w; w.id = 1; w.leak_prop = "C09"; w.override_fn = all_overrides; w.concurrent = true;
    for (auto *op : setup) { OpResult r = w.exec(*op); if (op->kind == "make_face" && !(r.v.size() && r.v[0])) return; }
    FaceObj &face = w.faces[0];
    const u64 gets0 = face.store->gets, rel0 = face.store->releases;
    g_world = &w; g_nraces = 0; g_race_count = 0; g_harness_reports = 0; g_switches = 0;
    g_skind = int(p.sched.size() > 0 ? p.sched[0] : 0); g_sparam = u64(p.sched.size() > 1 ? p.sched[1] : 30); if (!g_sparam) g_sparam = 1;
    g_srng = Rng(u64(p.sched.size() > 2 ? p.sched[2] : 1));
    std::set<u64> sites; g_sites = &sites;
    // fibers
    g_fibers.clear();
    g_cur = &g_main; g_main.done = false;
#ifdef GRSIM_TSAN_BUILD
    g_main.tsan = __tsan_get_current_fiber();
#endif
    for (auto &j : jobs) {
        Fiber *f = new Fiber(); f->jobs = j.second;
        f->stack = mmap(0, STACK_SZ, PROT_READ | PROT_WRITE, MAP_PRIVATE | MAP_ANONYMOUS | MAP_STACK, -1, 0);
        getcontext(&f->ctx); f->ctx.uc_stack.ss_sp = f->stack; f->ctx.uc_stack.ss_size = STACK_SZ; f->ctx.uc_link = 0;
        u64 pv = (u64)f; makecontext(&f->ctx, (void (*)())fiber_main, 2, unsigned(pv & 0xFFFFFFFFu), unsigned(pv >> 32));
#ifdef GRSIM_TSAN_BUILD
        f->tsan = __tsan_create_fiber(0);     // creation = publication edge: face/font construction happens-before the fiber's first step
#endif
        f->prio = int(g_srng.below(1000));
        g_fibers.push_back(f);
    }
    g_conc_t0 = g_steps;
    g_changepoints.clear(); g_cp_next = 0;
    if (g_skind == 1) { for (u64 i = 0; i < g_sparam; ++i) g_changepoints.push_back(g_srng.below(400000)); std::sort(g_changepoints.begin(), g_changepoints.end()); }
    g_sched_hook = on_edge;
    schedule_next_preemption();
    // scheduler hub: the main fiber hands control to a runnable worker; workers preempt each other directly
    // (no-sync switches) and come back here (sync switch) only when they finish.
    for (;;) {
        Fiber *to = pick_runnable(0);
        if (!to) break;
        switch_to(to, false);
    }
    g_sched_hook = 0; g_sched_at = ~0ull; recompute_horizon();
    g_sites = 0;
    if (g_harness_reports) probe("conc:harness-only-reports-ignored", g_harness_reports);
    probe("conc:runs"); probe("conc:switches", g_switches); probe("conc:preemption-sites", sites.size());
    maxstat("conc:switches-per-run", g_switches);
    // oracles
    if (negctl) { if (g_race_count) probe("conc:negctl-race-reported"); else probe("conc:negctl-silent"); }
    else {
        if (g_race_count) {
            const RaceRep &r = g_races[0];
            violation(std::string("C09:data-race:") + r.where[0], strf("ThreadSanitizer: %s between fiber %d (%s at %s) and fiber %d (%s at %s); %llu report(s) in this run", r.desc, r.tid[0], r.write[0] ? "write" : "read", r.where[0], r.tid[1], r.write[1] ? "write" : "read", r.where[1], (unsigned long long)g_race_count));
        }
        if (face.store->gets != gets0 || face.store->releases != rel0)
            violation("C09:table-callback", strf("%llu get_table / %llu release_table call(s) while workers ran on a preloadAll face", (unsigned long long)(face.store->gets - gets0), (unsigned long long)(face.store->releases - rel0)));
        size_t fi = 0;
        for (auto &j : jobs) {
            Fiber *f = g_fibers[fi++];
            for (size_t k = 0; k < f->results.size() && k < ref[j.first].size(); ++k) {
                const OpResult &a = ref[j.first][k], &b = f->results[k];
                if (a.kind != b.kind || a.v != b.v) { violation("C09:result-differs-from-sequential", strf("worker %d job %zu (%s): %s", j.first, k, f->jobs[k]->kind.c_str(), a.kind == "seg" && b.kind == "seg" ? dump_diff(a.v, b.v).c_str() : "answers differ")); break; }
            }
            if (f->results.size() != f->jobs.size()) violation("C09:worker-incomplete", strf("worker %d finished %zu of %zu jobs", j.first, f->results.size(), f->jobs.size()));
        }
    }
    g_nontrivial = g_switches > 2;
    for (auto *f : g_fibers) {
#ifdef GRSIM_TSAN_BUILD
        __tsan_destroy_fiber(f->tsan);
#endif
        munmap(f->stack, STACK_SZ); delete f;
    }
    g_fibers.clear(); g_world = 0;
    w.destroy_all();
}

void run_conc(const Plan &p) { run_conc_impl(p, false); quiescence_check("C09"); }
Plan gen_concneg(u64 seed) { Plan p = gen_conc(seed); p.mode = "concneg"; for (auto &op : p.ops) if (op.kind == "make_face") op.a[2] = 0; return p; }
void run_concneg(const Plan &p) { run_conc_impl(p, true); }

} // namespace sim

#ifdef GRSIM_TSAN_BUILD
// Link-time wrappers (-Wl,--wrap=...) around the TSan runtime's atomic entry points: every atomic operation compiled into the
// library becomes a scheduling point. The shipped library has none, so on the unchanged tree these never run.
#define GRSIM_WRAP_ATOMIC(bits, T) \
extern "C" T __real___tsan_atomic##bits##_load(const volatile T *a, int mo); \
extern "C" T __wrap___tsan_atomic##bits##_load(const volatile T *a, int mo) { sim::sched_sync_point(); return __real___tsan_atomic##bits##_load(a, mo); } \
extern "C" void __real___tsan_atomic##bits##_store(volatile T *a, T v, int mo); \
extern "C" void __wrap___tsan_atomic##bits##_store(volatile T *a, T v, int mo) { sim::sched_sync_point(); __real___tsan_atomic##bits##_store(a, v, mo); } \
extern "C" T __real___tsan_atomic##bits##_exchange(volatile T *a, T v, int mo); \
extern "C" T __wrap___tsan_atomic##bits##_exchange(volatile T *a, T v, int mo) { sim::sched_sync_point(); return __real___tsan_atomic##bits##_exchange(a, v, mo); } \
extern "C" T __real___tsan_atomic##bits##_fetch_add(volatile T *a, T v, int mo); \
extern "C" T __wrap___tsan_atomic##bits##_fetch_add(volatile T *a, T v, int mo) { sim::sched_sync_point(); return __real___tsan_atomic##bits##_fetch_add(a, v, mo); } \
extern "C" T __real___tsan_atomic##bits##_fetch_sub(volatile T *a, T v, int mo); \
extern "C" T __wrap___tsan_atomic##bits##_fetch_sub(volatile T *a, T v, int mo) { sim::sched_sync_point(); return __real___tsan_atomic##bits##_fetch_sub(a, v, mo); } \
extern "C" int __real___tsan_atomic##bits##_compare_exchange_strong(volatile T *a, T *c, T v, int mo, int fmo); \
extern "C" int __wrap___tsan_atomic##bits##_compare_exchange_strong(volatile T *a, T *c, T v, int mo, int fmo) { sim::sched_sync_point(); return __real___tsan_atomic##bits##_compare_exchange_strong(a, c, v, mo, fmo); } \
extern "C" int __real___tsan_atomic##bits##_compare_exchange_weak(volatile T *a, T *c, T v, int mo, int fmo); \
extern "C" int __wrap___tsan_atomic##bits##_compare_exchange_weak(volatile T *a, T *c, T v, int mo, int fmo) { sim::sched_sync_point(); return __real___tsan_atomic##bits##_compare_exchange_weak(a, c, v, mo, fmo); }
GRSIM_WRAP_ATOMIC(8, unsigned char)
GRSIM_WRAP_ATOMIC(16, unsigned short)
GRSIM_WRAP_ATOMIC(32, unsigned int)
GRSIM_WRAP_ATOMIC(64, unsigned long long)
#endif
