#include "segcheck.h"
#include <cmath>

namespace sim {

static bool fin(float f) { return std::isfinite(f); }

void check_segment(gr_segment *seg, const Encoded &text, const gr_face *face, const gr_font *font, const MonitorFlags &mf, SegView &view) {
    view = SegView(); view.seg = seg;
    if (!seg) return;
    API("seg-monitor", 50000000ull + 2000ull * 64 * (text.nchars + 1));
    const unsigned n = gr_seg_n_slots(seg);
    view.n_slots = n;
    probe("monitor:segments");
    const size_t nch = text.nchars;
    // ---- C02 growth cap (reported under C02 by the caller's mode; class carries the id)
    if (n > 64 * nch) violation("C02:slot-cap", strf("n_slots=%u > 64*nChars (nChars=%zu)", n, nch));

    // ---- C03: forward walk
    const gr_slot *first = gr_seg_first_slot(seg), *last = gr_seg_last_slot(seg);
    std::vector<const gr_slot *> &sl = view.slots;
    bool ok = true;
    if (n == 0) {
        if (first || last) { violation("C03:empty-segment-has-slots", "n_slots==0 but first/last slot non-NULL"); ok = false; }
    } else {
        if (!first || !last) { violation("C03:null-ends", strf("n_slots=%u but first=%p last=%p", n, (const void *)first, (const void *)last)); ok = false; }
    }
    if (ok && n) {
        const gr_slot *s = first; size_t lim = size_t(n) + 1;
        while (s && sl.size() < lim) { if (view.ord.count(s)) break; view.ord[s] = unsigned(sl.size()); sl.push_back(s); s = gr_slot_next_in_segment(s); }
        if (s && view.ord.count(s) && sl.size() <= n) { violation("C03:next-cycle", strf("next_in_segment revisits slot ordinal %u after %zu steps", view.ord[s], sl.size())); ok = false; }
        else if (sl.size() != n) { violation("C03:count-mismatch", strf("forward walk visits %zu%s slots, gr_seg_n_slots=%u", sl.size(), sl.size() > n ? "+" : "", n)); ok = false; }
        else if (sl.back() != last) { violation("C03:last-mismatch", "forward walk does not end at gr_seg_last_slot"); ok = false; }
        if (ok) {
            if (gr_slot_prev_in_segment(first)) { violation("C03:first-has-prev", "prev_in_segment(first) != NULL"); ok = false; }
            for (size_t i = 1; ok && i < sl.size(); ++i)
                if (gr_slot_prev_in_segment(sl[i]) != sl[i - 1]) { violation("C03:prev-not-inverse", strf("prev_in_segment(slot %zu) is not slot %zu", i, i - 1)); ok = false; }
        }
    }
    view.chain_ok = ok;
    if (!ok) return;

    // index permutation, finiteness, gid
    {
        std::vector<char> seen(n, 0);
        const unsigned ng = gr_face_n_glyphs(face);
        for (size_t i = 0; i < n; ++i) {
            unsigned ix = gr_slot_index(sl[i]);
            if (ix >= n || seen[ix]) { violation("C03:index-not-permutation", strf("slot %zu has index %u (n=%u, duplicate=%d)", i, ix, n, ix < n)); break; }
            seen[ix] = 1;
        }
        for (size_t i = 0; i < n; ++i) {
            float ox = gr_slot_origin_X(sl[i]), oy = gr_slot_origin_Y(sl[i]);
            float ax = gr_slot_advance_X(sl[i], face, font), ay = gr_slot_advance_Y(sl[i], face, font);
            float ax0 = gr_slot_advance_X(sl[i], face, 0);
            if (!fin(ox) || !fin(oy) || !fin(ax) || !fin(ay) || !fin(ax0)) { violation("C03:non-finite", strf("slot %zu origin=(%g,%g) advance=(%g,%g)", i, ox, oy, ax, ay)); break; }
            if (mf.gid_clause && gr_slot_gid(sl[i]) >= ng) { violation("C03:gid-range", strf("slot %zu gid %u >= n_glyphs %u", i, gr_slot_gid(sl[i]), ng)); break; }
        }
        float sx = gr_seg_advance_X(seg), sy = gr_seg_advance_Y(seg);
        if (!fin(sx) || !fin(sy)) violation("C03:non-finite", strf("segment advance=(%g,%g)", sx, sy));
    }

    // ---- C04: attachment forest
    {
        bool c4 = true;
        std::vector<int> parent(n, -1);
        for (size_t i = 0; c4 && i < n; ++i) {
            const gr_slot *p = gr_slot_attached_to(sl[i]);
            if (p) { auto it = view.ord.find(p); if (it == view.ord.end()) { violation("C04:parent-outside-segment", strf("slot %zu attached to a slot that is not in the segment", i)); c4 = false; } else parent[i] = int(it->second); }
        }
        for (size_t i = 0; c4 && i < n; ++i) {
            int p = int(i); size_t steps = 0;
            while (parent[p] >= 0 && steps <= n) { p = parent[p]; ++steps; }
            if (steps > n) { violation("C04:parent-cycle", strf("attached_to chain from slot %zu does not reach a base", i)); c4 = false; }
        }
        // child chains
        std::vector<int> occurs(n, 0);
        for (size_t i = 0; c4 && i < n; ++i) {
            const gr_slot *c = gr_slot_first_attachment(sl[i]); size_t steps = 0;
            while (c && steps <= n) {
                auto it = view.ord.find(c);
                if (it == view.ord.end()) { violation("C04:child-outside-segment", strf("child chain of slot %zu leaves the segment", i)); c4 = false; break; }
                if (parent[it->second] != int(i)) { violation("C04:child-names-other-parent", strf("slot %u is in the child chain of slot %zu but attached_to says %d", it->second, i, parent[it->second])); c4 = false; break; }
                ++occurs[it->second];
                c = gr_slot_next_sibling_attachment(c); ++steps;
            }
            if (c4 && steps > n) { violation("C04:child-chain-cycle", strf("child chain of slot %zu does not terminate", i)); c4 = false; }
        }
        {   // reach probes: how rich are the attachment forests the runs produce?
            size_t attached = 0, multi = 0, deep = 0; std::vector<int> nchild(n, 0);
            for (size_t i = 0; i < n; ++i) if (parent[i] >= 0) { ++attached; if (++nchild[size_t(parent[i])] == 2) ++multi; if (parent[size_t(parent[i])] >= 0) ++deep; }
            { int mx = 0; for (size_t i = 0; i < n; ++i) if (nchild[i] > mx) mx = nchild[i]; maxstat("forest:max-children-of-one-slot", u64(mx)); }
            if (attached) probe("forest:segments-with-attachments"); if (multi) probe("forest:segments-with-multi-child-parent"); if (deep) probe("forest:segments-with-depth>=2");
        }
        for (size_t i = 0; c4 && i < n; ++i)
            if (parent[i] >= 0 && occurs[i] != 1) { violation("C04:child-occurrence", strf("slot %zu (parent %d) occurs %d times in its parent's child chain", i, parent[i], occurs[i])); c4 = false; }
        // base chain
        if (c4 && n) {
            std::vector<int> nextbase(n, -1); std::vector<int> indeg(n, 0); size_t nbases = 0;
            for (size_t i = 0; c4 && i < n; ++i) {
                if (parent[i] >= 0) continue;
                ++nbases;
                const gr_slot *nb = gr_slot_next_sibling_attachment(sl[i]);
                if (!nb) continue;
                auto it = view.ord.find(nb);
                if (it == view.ord.end()) { violation("C04:base-chain-outside-segment", strf("base %zu's sibling is not in the segment", i)); c4 = false; break; }
                if (parent[it->second] >= 0) { violation("C04:base-chain-has-nonbase", strf("base %zu's sibling %u is an attached slot", i, it->second)); c4 = false; break; }
                nextbase[i] = int(it->second); ++indeg[it->second];
            }
            if (c4) {
                int head = -1, heads = 0;
                for (size_t i = 0; i < n; ++i) if (parent[i] < 0 && indeg[i] == 0) { ++heads; if (head < 0) head = int(i); }
                if (heads != 1) { violation("C04:base-chain-heads", strf("%d bases are not the sibling of another base (expected exactly 1 of %zu bases)", heads, nbases)); c4 = false; }
                else {
                    size_t cnt = 0; int b = head; std::vector<char> vis(n, 0);
                    while (b >= 0 && !vis[b]) { vis[b] = 1; ++cnt; b = nextbase[b]; }
                    if (b >= 0 || cnt != nbases) { violation("C04:base-chain-coverage", strf("base chain visits %zu of %zu bases%s", cnt, nbases, b >= 0 ? " (cycle)" : "")); c4 = false; }
                }
            }
        }
    }

    // ---- C05: characters <-> slots
    if (mf.c05) {
        unsigned nc = gr_seg_n_cinfo(seg);
        // A text with an embedded U+0000 and an nChars that counts past it: the code treats the NUL as one more character,
        // the header says processing stops at the first NUL. Both are accepted - all nChars characters decoded in order, or a
        // segment made from exactly the characters before the NUL - but nothing in between (char-infos nobody filled in).
        if (text.first_nul != size_t(-1)) probe(nc == text.first_nul ? "c05:embedded-nul-stopped" : "c05:embedded-nul-as-character");
        if (nc != nch && !(text.first_nul != size_t(-1) && nc == text.first_nul)) { violation("C05:n-cinfo", strf("n_cinfo=%u, nChars=%zu", nc, nch)); return; }
        size_t prevbase = 0;
        for (unsigned i = 0; i < nc; ++i) {
            const gr_char_info *ci = gr_seg_cinfo(seg, i);
            if (!ci) { violation("C05:cinfo-null", strf("gr_seg_cinfo(%u) == NULL", i)); return; }
            unsigned u = gr_cinfo_unicode_char(ci); size_t b = gr_cinfo_base(ci);
            if (u != text.expect_usv[i]) { violation("C05:unicode-char", strf("char %u decodes to U+%04X, expected U+%04X (enc=%d)", i, u, text.expect_usv[i], text.enc)); return; }
            if (b != text.expect_base[i] || (i && b <= prevbase)) { violation("C05:base-offset", strf("char %u base=%zu expected %zu", i, b, text.expect_base[i])); return; }
            prevbase = b;
        }
        std::vector<char> covered(nc, 0);
        for (size_t i = 0; i < n; ++i) {
            int b = gr_slot_before(sl[i]), a = gr_slot_after(sl[i]), o = gr_slot_original(sl[i]);
            if (b < 0 || a < 0 || o < 0 || unsigned(b) >= nc || unsigned(a) >= nc || unsigned(o) >= nc) { violation("C05:slot-assoc-range", strf("slot %zu before=%d after=%d original=%d, nChars=%u", i, b, a, o, nc)); return; }
            for (int k = b; k <= a; ++k) covered[k] = 1;
        }
        if (n) {
            for (unsigned i = 0; i < nc; ++i) if (!covered[i]) { violation("C05:char-uncovered", strf("char %u lies in no slot's [before,after]", i)); return; }
            for (unsigned i = 0; i < nc; ++i) {
                const gr_char_info *ci = gr_seg_cinfo(seg, i);
                int b = gr_cinfo_before(ci), a = gr_cinfo_after(ci);
                if (b < 0 || a < 0 || unsigned(b) >= n || unsigned(a) >= n) { violation("C05:cinfo-slot-range", strf("char %u before=%d after=%d, n_slots=%u", i, b, a, n)); return; }
            }
        }
    }
}

static const int DUMP_ATTRS[] = {
    gr_slatAdvX, gr_slatAdvY, gr_slatAttTo, gr_slatAttX, gr_slatAttY, gr_slatAttWithX, gr_slatAttWithY, gr_slatAttLevel, gr_slatBreak, gr_slatDir,
    gr_slatInsert, gr_slatPosX, gr_slatPosY, gr_slatShiftX, gr_slatShiftY, gr_slatUserDefnV1, gr_slatJStretch, gr_slatJShrink, gr_slatJStep, gr_slatJWeight,
    gr_slatJWidth, gr_slatSegSplit, gr_slatBidiLevel, gr_slatColFlags, gr_slatColLimitblx, gr_slatColLimitbly, gr_slatColLimittrx, gr_slatColLimittry,
    gr_slatColShiftx, gr_slatColShifty, gr_slatColMargin, gr_slatColMarginWt, gr_slatColExclGlyph, gr_slatColExclOffx, gr_slatColExclOffy, gr_slatSeqClass,
    gr_slatSeqProxClass, gr_slatSeqOrder, gr_slatSeqAboveXoff, gr_slatSeqAboveWt, gr_slatSeqBelowXlim, gr_slatSeqBelowWt, gr_slatSeqValignHt, gr_slatSeqValignWt};
static const int N_DUMP_ATTRS = int(sizeof DUMP_ATTRS / sizeof DUMP_ATTRS[0]);
static const int SLOT_FIELDS = 15;

void dump_segment(const SegView &view, const gr_face *face, const gr_font *font, bool attrs, Dump &out) {
    out.clear();
    gr_segment *seg = view.seg;
    if (!seg) { out.push_back(-1); return; }
    API("seg-dump", 50000000ull + 100000ull * (view.n_slots + 1));
    const unsigned n = view.n_slots;
    out.push_back(n);
    out.push_back(fbits(gr_seg_advance_X(seg))); out.push_back(fbits(gr_seg_advance_Y(seg)));
    out.push_back(attrs ? N_DUMP_ATTRS + 4 : 0);
    auto ordof = [&](const gr_slot *s) -> i64 { if (!s) return -1; auto it = view.ord.find(s); return it == view.ord.end() ? -2 : i64(it->second); };
    for (unsigned i = 0; i < n; ++i) {
        const gr_slot *s = view.slots[i];
        out.push_back(gr_slot_gid(s));
        out.push_back(fbits(gr_slot_origin_X(s))); out.push_back(fbits(gr_slot_origin_Y(s)));
        out.push_back(fbits(gr_slot_advance_X(s, face, font))); out.push_back(fbits(gr_slot_advance_Y(s, face, font)));
        out.push_back(gr_slot_before(s)); out.push_back(gr_slot_after(s)); out.push_back(gr_slot_original(s));
        out.push_back(gr_slot_index(s));
        out.push_back(ordof(gr_slot_attached_to(s))); out.push_back(ordof(gr_slot_first_attachment(s))); out.push_back(ordof(gr_slot_next_sibling_attachment(s)));
        out.push_back(gr_slot_can_insert_before(s));
        out.push_back(fbits(gr_slot_advance_X(s, face, 0)));
        out.push_back(0);
        if (attrs) {
            for (int k = 0; k < N_DUMP_ATTRS; ++k) out.push_back(gr_slot_attr(s, seg, gr_attrCode(DUMP_ATTRS[k]), 0));
            for (int k = 0; k < 4; ++k) out.push_back(gr_slot_attr(s, seg, gr_slatUserDefn, gr_uint8(k)));
        }
    }
    unsigned nc = gr_seg_n_cinfo(seg);
    out.push_back(nc);
    for (unsigned i = 0; i < nc; ++i) {
        const gr_char_info *ci = gr_seg_cinfo(seg, i);
        if (!ci) { out.push_back(-9); continue; }
        out.push_back(gr_cinfo_unicode_char(ci)); out.push_back(i64(gr_cinfo_base(ci))); out.push_back(gr_cinfo_before(ci)); out.push_back(gr_cinfo_after(ci)); out.push_back(gr_cinfo_break_weight(ci));
    }
}

std::string dump_diff(const Dump &a, const Dump &b) {
    if (a == b) return "";
    if (a.size() == 1 || b.size() == 1) return strf("one segment is NULL (%s)", a.size() == 1 ? "left" : "right");
    if (a.size() >= 4 && b.size() >= 4 && (a[0] != b[0] || a[3] != b[3])) return strf("n_slots %lld vs %lld", (long long)a[0], (long long)b[0]);
    size_t i = 0; while (i < a.size() && i < b.size() && a[i] == b[i]) ++i;
    if (i < 4) return strf("segment field %zu: %llx vs %llx", i, (long long)(i < a.size() ? a[i] : -1), (long long)(i < b.size() ? b[i] : -1));
    size_t per = size_t(SLOT_FIELDS + a[3]); size_t n = size_t(a[0]);
    size_t k = i - 4;
    static const char *names[] = {"gid", "origin_x", "origin_y", "advance_x", "advance_y", "before", "after", "original", "index", "attached_to", "first_attachment", "next_sibling", "can_insert_before", "advance_x(nofont)", "pad"};
    if (k < per * n) {
        size_t slot = k / per, f = k % per;
        std::string fname = f < size_t(SLOT_FIELDS) ? names[f] : (f - SLOT_FIELDS < size_t(N_DUMP_ATTRS) ? strf("attr[%d]", DUMP_ATTRS[f - SLOT_FIELDS]) : strf("user[%zu]", f - SLOT_FIELDS - N_DUMP_ATTRS));
        return strf("slot %zu %s: %lld (0x%llx) vs %lld (0x%llx)", slot, fname.c_str(), (long long)a[i], (long long)a[i], (long long)(i < b.size() ? b[i] : -1), (long long)(i < b.size() ? b[i] : -1));
    }
    k -= per * n;
    if (k == 0) return strf("n_cinfo %lld vs %lld", (long long)a[i], (long long)(i < b.size() ? b[i] : -1));
    --k;
    static const char *cn[] = {"unicode", "base", "before", "after", "break_weight"};
    return strf("char %zu %s: %lld vs %lld", k / 5, cn[k % 5], (long long)a[i], (long long)(i < b.size() ? b[i] : -1));
}

static i64 hash_label(void *p, gr_uint32 len, int enc) {
    if (!p) return -1;
    Hasher h; size_t unit = size_t(enc);
    // label must be NUL terminated at `len` units (checked by C18's model; here only hashed)
    h.bytes(p, size_t(len) * unit); h.u(len);
    return i64(h.h >> 1);
}

void face_report(const gr_face *face, const std::vector<u32> &cps, Dump &out, bool labels) {
    out.clear();
    API("face-report", 2000000000ull);
    out.push_back(gr_face_n_glyphs(face));
    unsigned nf = gr_face_n_fref(face);
    out.push_back(nf);
    for (unsigned i = 0; i < nf; ++i) {
        const gr_feature_ref *f = gr_face_fref(face, gr_uint16(i));
        if (!f) { out.push_back(-7); continue; }
        out.push_back(gr_fref_id(f));
        unsigned nv = gr_fref_n_values(f); out.push_back(nv);
        for (unsigned k = 0; k < nv; ++k) out.push_back(gr_fref_value(f, gr_uint16(k)));
        if (gr_face_find_fref(face, gr_fref_id(f)) == 0) out.push_back(-8);
        if (labels) {
            static const gr_encform encs[] = {gr_utf8, gr_utf16, gr_utf32};
            for (int e = 0; e < 3; ++e) {
                gr_uint16 lang = 0x0409; gr_uint32 len = 0;
                void *l = gr_fref_label(f, &lang, encs[e], &len); out.push_back(hash_label(l, len, int(encs[e]))); out.push_back(lang); gr_label_destroy(l);
            }
            for (unsigned k = 0; k < nv && k < 6; ++k) {
                gr_uint16 lang = 0x0409; gr_uint32 len = 0;
                void *l = gr_fref_value_label(f, gr_uint16(k), &lang, gr_utf8, &len); out.push_back(hash_label(l, len, 1)); gr_label_destroy(l);
            }
        }
    }
    unsigned nl = gr_face_n_languages(face); out.push_back(nl);
    for (unsigned i = 0; i < nl; ++i) {
        u32 lang = gr_face_lang_by_index(face, gr_uint16(i)); out.push_back(lang);
        if (i < 8 || i + 2 >= nl) {
            gr_feature_val *fv = gr_face_featureval_for_lang(face, lang);
            if (fv) { for (unsigned k = 0; k < nf; ++k) { const gr_feature_ref *f = gr_face_fref(face, gr_uint16(k)); if (f) out.push_back(gr_fref_feature_value(f, fv)); } gr_featureval_destroy(fv); }
            else out.push_back(-6);
        }
    }
    {
        gr_feature_val *fv = gr_face_featureval_for_lang(face, 0);
        if (fv) { for (unsigned k = 0; k < nf; ++k) { const gr_feature_ref *f = gr_face_fref(face, gr_uint16(k)); if (f) out.push_back(gr_fref_feature_value(f, fv)); } gr_featureval_destroy(fv); }
    }
    const gr_faceinfo *fi = gr_face_info(face, 0);
    if (fi) { out.push_back(fi->extra_ascent); out.push_back(fi->extra_descent); out.push_back(fi->upem); out.push_back(fi->space_contextuals); out.push_back(fi->has_bidi_pass); out.push_back(fi->line_ends); out.push_back(fi->justifies); }
    else out.push_back(-5);
    for (u32 cp : cps) out.push_back(gr_face_is_char_supported(face, cp, 0));
}

} // namespace sim
