// Segment monitors (C03, C04, C05), canonical dumps, face self-report.
#pragma once
#include "world.h"
#include "text.h"

namespace sim {

struct SegView {
    gr_segment *seg = 0;
    unsigned n_slots = 0;
    std::vector<const gr_slot *> slots;                 // forward order (valid when chain_ok)
    std::unordered_map<const gr_slot *, unsigned> ord;  // slot -> ordinal
    bool chain_ok = false;
};

struct MonitorFlags { bool gid_clause = false; bool c05 = true; };

// Walks and checks one freshly returned segment. Violations are recorded through sim::violation with
// classes "C03:<clause>", "C04:<clause>", "C05:<clause>". Returns the view (slot list) for the dump.
void check_segment(gr_segment *seg, const Encoded &text, const gr_face *face, const gr_font *font, const MonitorFlags &mf, SegView &view);

typedef std::vector<i64> Dump;
// canonical serialisation through the public API only; requires view.chain_ok
void dump_segment(const SegView &view, const gr_face *face, const gr_font *font, bool attrs, Dump &out);
std::string dump_diff(const Dump &a, const Dump &b);
// what a face reports about itself (C08/C10/C14): glyph count, features, labels, languages, char support, face info
void face_report(const gr_face *face, const std::vector<u32> &cps, Dump &out, bool labels = true);

static inline i64 fbits(float f) { u32 u; memcpy(&u, &f, 4); return i64(u); }

} // namespace sim
