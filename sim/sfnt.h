// sfnt container: split a font file into tables, re-assemble an image, and name structure-bearing byte ranges.
#pragma once
#include "util.h"
#include <algorithm>

struct FontImage {
    std::string name;                  // corpus name (file stem)
    Bytes file;                        // original file bytes
    std::map<u32, Bytes> tables;       // tag -> bytes
    std::vector<u32> order;            // directory order
    bool ok = false;
};

static inline bool parse_sfnt(const Bytes &f, FontImage &img) {
    img.tables.clear(); img.order.clear(); img.ok = false;
    if (f.size() < 12) return false;
    unsigned n = be16(&f[4]);
    if (12 + size_t(n) * 16 > f.size()) return false;
    for (unsigned i = 0; i < n; ++i) {
        const u8 *e = &f[12 + i * 16];
        u32 tag = be32(e), off = be32(e + 8), len = be32(e + 12);
        if (off > f.size() || len > f.size() - off) continue;
        img.tables[tag] = Bytes(f.begin() + off, f.begin() + off + len);
        img.order.push_back(tag);
    }
    img.ok = true;
    return true;
}

// Build an sfnt image from a tag->bytes map (tables 4-byte aligned, directory sorted by tag).
static inline Bytes build_sfnt(const std::map<u32, Bytes> &tables) {
    Bytes out;
    unsigned n = unsigned(tables.size());
    put32(out, 0x00010000); put16(out, n);
    unsigned es = 0, p2 = 1; while (p2 * 2 <= n) { p2 *= 2; ++es; }
    put16(out, p2 * 16); put16(out, es); put16(out, n * 16 - p2 * 16);
    size_t off = 12 + size_t(n) * 16;
    for (auto &t : tables) {
        put32(out, t.first); put32(out, 0); put32(out, u32(off)); put32(out, u32(t.second.size()));
        off += (t.second.size() + 3) & ~size_t(3);
    }
    for (auto &t : tables) { out.insert(out.end(), t.second.begin(), t.second.end()); while (out.size() & 3) out.push_back(0); }
    return out;
}

// Same container, other legal layout: table data in a seeded random order, 4-byte aligned, and no padding after the last table
// (the file ends with the last byte of whichever table comes last).
static inline Bytes build_sfnt_layout(const std::map<u32, Bytes> &tables_in, u64 seed) {
    // seed % 8 == 3: the font carries 20..60 more (private, unused) tables than it needs - more than 40 in all;
    // seed % 16 == 5 / 13: the sfnt version tag is 'true' / 'OTTO' instead of 0x00010000. All are well-formed sfnt containers.
    std::map<u32, Bytes> tables = tables_in;
    if (seed % 8 == 3) { unsigned extra = 20 + unsigned((seed >> 8) % 41); for (unsigned k = 0; k < extra; ++k) { char tg[5] = {'z', 'z', char('A' + k / 26), char('a' + k % 26), 0}; tables[mktag(tg)] = Bytes(4 + k % 9, u8(k)); } }
    const u32 version = seed % 16 == 5 ? 0x74727565u : seed % 16 == 13 ? 0x4F54544Fu : 0x00010000u;
    std::vector<u32> order; for (auto &t : tables) order.push_back(t.first);
    Rng r(seed); for (size_t i = order.size(); i > 1; --i) std::swap(order[i - 1], order[r.below(u32(i))]);
    Bytes out; unsigned n = unsigned(tables.size());
    put32(out, version); put16(out, n);
    unsigned es = 0, p2 = 1; while (p2 * 2 <= n) { p2 *= 2; ++es; }
    put16(out, p2 * 16); put16(out, es); put16(out, n * 16 - p2 * 16);
    std::map<u32, size_t> off; size_t o = 12 + size_t(n) * 16;
    for (size_t k = 0; k < order.size(); ++k) { off[order[k]] = o; o += tables.find(order[k])->second.size(); if (k + 1 < order.size()) o = (o + 3) & ~size_t(3); }
    for (auto &t : tables) { put32(out, t.first); put32(out, 0); put32(out, u32(off[t.first])); put32(out, u32(t.second.size())); }
    for (size_t k = 0; k < order.size(); ++k) { const Bytes &b = tables.find(order[k])->second; while (out.size() < off[order[k]]) out.push_back(0); out.insert(out.end(), b.begin(), b.end()); }
    return out;
}

struct Range { size_t lo, hi; const char *what; };   // [lo,hi)

// Structure-bearing ranges of a table, computed by simple independent walkers. Best effort: rot aimed
// here reaches parser decisions; anything unparsable falls back to the table head.
static inline void silf_ranges(const Bytes &t, std::vector<Range> &out) {
    if (t.size() < 12) return;
    u32 ver = be32(&t[0]);
    size_t p = 4; if (ver >= 0x00030000) p += 4;
    if (p + 4 > t.size()) return;
    unsigned nsub = be16(&t[p]); p += 4;
    out.push_back({0, std::min(t.size(), p + 4 * size_t(nsub)), "silf-head"});
    for (unsigned s = 0; s < nsub && p + 4 <= t.size(); ++s, p += 4) {
        size_t so = be32(&t[p]);
        if (so + 40 > t.size()) continue;
        size_t q = so; if (ver >= 0x00030000) q += 8;     // ruleVersion, passOffset, pseudosOffset
        out.push_back({so, std::min(t.size(), so + 64), "silf-sub-head"});
        // numPasses at q+... : maxGlyphID(2) extraAscent(2) extraDescent(2) numPasses(1) iSubst iPos iJust iBidi flags maxPre maxPost attrPseudo attrBW attrDir attrMirr attrSkip numJLevels
        if (q + 20 > t.size()) continue;
        unsigned numPasses = t[q + 6];
        unsigned numJ = t[q + 19];
        size_t r = q + 20 + size_t(numJ) * 8;
        // numLigComp(2) numUserDefn(1) maxCompPerLig(1) direction(1) attCollisions(1) reserved(3) numCritFeatures(1) critFeatures[] reserved(1) numScriptTag(1) scriptTag[] lbGID(2) oPasses[numPasses+1]
        if (r + 10 > t.size()) continue;
        unsigned ncrit = t[r + 9]; r += 10 + size_t(ncrit) * 2 + 1;
        if (r + 1 > t.size()) continue;
        unsigned nscr = t[r]; r += 1 + size_t(nscr) * 4 + 2;
        size_t opass = r;
        if (opass + 4 * size_t(numPasses + 1) > t.size()) continue;
        out.push_back({q, opass, "silf-sub-params"});
        out.push_back({opass, opass + 4 * size_t(numPasses + 1), "silf-pass-offsets"});
        r = opass + 4 * size_t(numPasses + 1);
        if (r + 8 <= t.size()) {
            unsigned npseudo = be16(&t[r]);
            out.push_back({r, std::min(t.size(), r + 8 + size_t(npseudo) * 6), "silf-pseudo"});
            size_t cm = r + 8 + size_t(npseudo) * 6;
            if (cm + 4 <= t.size()) {
                unsigned ncls = be16(&t[cm]);
                size_t osz = ver >= 0x00040000 ? 4 : 2;
                out.push_back({cm, std::min(t.size(), cm + 4 + osz * size_t(ncls + 1)), "silf-classmap-offsets"});
                size_t cls0 = cm + 4 + osz * size_t(ncls + 1);
                if (cls0 < t.size()) out.push_back({cls0, std::min(t.size(), cls0 + 512), "silf-classes"});
            }
        }
        for (unsigned i = 0; i < numPasses; ++i) {
            size_t po = so + be32(&t[opass + 4 * i]), pe = so + be32(&t[opass + 4 * (i + 1)]);
            if (po + 40 > t.size() || pe > t.size() || pe <= po) continue;
            out.push_back({po, po + 40, "pass-head"});
            // flags(1) maxRuleLoop(1) maxRuleContext(1) maxBackup(1) numRules(2) fsmOffset(2) pcCode(4) rcCode(4) aCode(4) oDebug(4) numRows(2) numTransitional(2) numSuccess(2) numColumns(2) numRange(2) ...
            unsigned numRules = be16(&t[po + 4]);
            unsigned numRows = be16(&t[po + 24]), numTrans = be16(&t[po + 26]), numSucc = be16(&t[po + 28]), numCols = be16(&t[po + 30]), numRange = be16(&t[po + 32]);
            size_t rr = po + 40;
            size_t rend = rr + size_t(numRange) * 6;
            if (rend <= pe) out.push_back({rr, rend, "pass-ranges"});
            size_t orm = rend, ormend = orm + 2 * size_t(numSucc + 1);
            if (ormend <= pe) out.push_back({orm, ormend, "pass-rulemap-offsets"});
            (void)numRows; (void)numTrans; (void)numCols;
            // the rest (rule map, minRulePreContext.., sort keys, pre-contexts, code offsets, states, bytecode)
            size_t rest = ormend;
            if (rest < pe) {
                size_t span = pe - rest;
                out.push_back({rest, rest + std::min<size_t>(span, 2 * size_t(numRules) * 4 + 64), "pass-rule-tables"});
                out.push_back({pe - std::min<size_t>(span, 4096), pe, "pass-code-tail"});
            }
        }
    }
}


// ---------------------------------------------------------------------------------------------- Silf bytecode walker
struct PassInfo { size_t head; size_t rc_lo, rc_hi, ac_lo, ac_hi; size_t st_lo = 0, st_hi = 0; unsigned ncols = 0, nstates = 0; };      // absolute offsets in the Silf table (st_*: FSM transition table)
static inline void silf_passes(const Bytes &t, std::vector<PassInfo> &out) {
    out.clear();
    std::vector<Range> rg; silf_ranges(t, rg);
    if (t.size() < 12) return;
    u32 ver = be32(&t[0]);
    if (ver >= 0x00050000 && (be32(&t[4]) >> 27) != 0) return;   // compressed
    size_t p = 4; if (ver >= 0x00030000) p += 4;
    if (p + 4 > t.size()) return;
    unsigned nsub = be16(&t[p]); p += 4;
    for (unsigned s = 0; s < nsub && p + 4 <= t.size(); ++s, p += 4) {
        size_t so = be32(&t[p]);
        for (auto &r : rg) {
            if (strcmp(r.what, "pass-head") != 0 || r.lo < so) continue;
            size_t po = r.lo; if (po + 40 > t.size()) continue;
            size_t rc = so + be32(&t[po + 12]), ac = so + be32(&t[po + 16]);
            // the pass ends where the next structure begins: take the next pass head or the table end
            size_t pe = t.size(); for (auto &q : rg) if (!strcmp(q.what, "pass-head") && q.lo > po && q.lo < pe) pe = q.lo;
            if (rc > ac || ac > pe || rc < po) continue;
            PassInfo pi; pi.head = po; pi.rc_lo = rc; pi.rc_hi = ac; pi.ac_lo = ac; pi.ac_hi = pe;
            {   // walk the pass tables down to the FSM transition table (same order as the loader reads them)
                unsigned numRules = be16(&t[po + 4]), numStates = be16(&t[po + 24]), numTrans = be16(&t[po + 26]), numSucc = be16(&t[po + 28]), numCols = be16(&t[po + 30]), numRange = be16(&t[po + 32]);
                size_t q = po + 40 + 6 * size_t(numRange);                     // ranges
                size_t orm = q; q += 2 * size_t(numSucc + 1);                  // oRuleMap
                if (q <= pe && orm + 2 * size_t(numSucc) + 2 <= t.size()) {
                    unsigned numEntries = be16(&t[orm + 2 * size_t(numSucc)]); q += 2 * size_t(numEntries);          // ruleMap
                    if (q + 2 <= pe) { unsigned minPre = t[q], maxPre = t[q + 1]; q += 2; if (maxPre >= minPre) { q += 2 * size_t(maxPre - minPre + 1); q += 2 * size_t(numRules); q += numRules; q += 1 + 2; q += 2 * size_t(numRules + 1) * 2;
                        size_t st = q, se = st + 2 * size_t(numTrans) * numCols; if (se <= rc && se <= pe && numCols) { pi.st_lo = st; pi.st_hi = se; pi.ncols = numCols; pi.nstates = numStates; } } }
                }
            }
            out.push_back(pi);
        }
        break;      // first subtable only (every corpus font has one)
    }
}
// parameter bytes per opcode (-1: variable, ASSOC), from the on-disk opcode numbering
static inline int opcode_params(unsigned op) {
    static const signed char P[] = {0, 1,1,2,2,4, 0,0,0,0,0,0,0,0,0, 0,0,0,0,0,0,0,0,0,0, 0,1,0,1,3,1,0,0,-1,2, 1,1,1,1,2,2,2,3,2, 2,3,3, 3, 0,0,0, 2,2,2,1,0,5,0,0,2,3,3,0,0,0,4,2};
    return op < sizeof P ? P[op] : -2;
}
struct Insn { size_t off; unsigned op; int plen; };
static inline void decode_code(const Bytes &t, size_t lo, size_t hi, std::vector<Insn> &out) {
    out.clear();
    size_t i = lo;
    while (i < hi && i < t.size()) {
        unsigned op = t[i]; int pl = opcode_params(op);
        if (pl == -2) break;
        if (pl == -1) { if (i + 1 >= hi) break; pl = 1 + t[i + 1]; }
        if (i + 1 + size_t(pl) > hi) break;
        out.push_back({i, op, pl}); i += 1 + size_t(pl);
    }
}

static inline void table_ranges(u32 tag, const Bytes &t, std::vector<Range> &out) {
    out.clear();
    if (t.empty()) return;
    out.push_back({0, std::min<size_t>(t.size(), 64), "head"});
    if (tag == mktag("Silf")) silf_ranges(t, out);
    else if (tag == mktag("Gloc")) { out.push_back({0, std::min<size_t>(t.size(), 8), "gloc-head"}); if (t.size() > 16) { out.push_back({8, std::min<size_t>(t.size(), 8 + 256), "gloc-first-offsets"}); out.push_back({t.size() - std::min<size_t>(t.size(), 64), t.size(), "gloc-last-offsets"}); } }
    else if (tag == mktag("Glat")) { out.push_back({0, std::min<size_t>(t.size(), 512), "glat-first-runs"}); }
    else if (tag == mktag("cmap")) {
        if (t.size() >= 4) { unsigned n = be16(&t[2]); out.push_back({0, std::min<size_t>(t.size(), 4 + 8 * size_t(n)), "cmap-dir"});
            for (unsigned i = 0; i < n && 4 + 8 * size_t(i) + 8 <= t.size(); ++i) {
                size_t so = be32(&t[4 + 8 * i + 4]); if (so >= t.size()) continue;
                out.push_back({so, std::min<size_t>(t.size(), so + 64), "cmap-sub-head"});
                if (so + 16 <= t.size() && be16(&t[so]) == 4) { size_t sx2 = be16(&t[so + 6]); size_t idd = so + 14 + sx2 + 2 + sx2; if (idd + 2 * sx2 <= t.size()) { out.push_back({idd, idd + sx2, "cmap4-iddelta"}); out.push_back({idd + sx2, idd + 2 * sx2, "cmap4-idrangeoffset"}); out.push_back({so + 14, so + 14 + sx2, "cmap4-endcodes"}); } }
                if (so + 16 <= t.size() && be16(&t[so]) == 12) { size_t ng = be32(&t[so + 12]); size_t g0 = so + 16; if (ng && g0 + 12 * ng <= t.size()) out.push_back({g0, g0 + 12 * std::min<size_t>(ng, 400), "cmap12-groups"}); }
            } }
    }
    else if (tag == mktag("Feat")) out.push_back({0, std::min<size_t>(t.size(), 12 + 16 * 8), "feat-records"});
    else if (tag == mktag("Sill")) out.push_back({0, std::min<size_t>(t.size(), 12 + 8 * 8), "sill-records"});
    else if (tag == mktag("name")) { if (t.size() >= 6) { unsigned n = be16(&t[2]); out.push_back({0, std::min<size_t>(t.size(), 6 + 12 * size_t(std::min(n, 16u))), "name-records"}); } }
    else if (tag == mktag("loca")) { out.push_back({t.size() - std::min<size_t>(t.size(), 16), t.size(), "loca-tail"}); }
}
