// Synthesised rule programs: a storage-format override (OVR_SILF) that replaces the Silf and cmap tables of a small
// corpus font by a seeded, well-formed Silf v2 table whose passes/rules attach, re-attach, delete, insert, copy and
// re-associate slots in arbitrary ways. This widens the "programs" dimension of C02..C05 beyond what bit-rot on the
// shipped rule sets reaches (DESIGN.md 4.3). Mode `synth` = such a font + texts over its 8-letter alphabet.
#include "modes.h"

namespace sim {

static const unsigned ALPHA = 8;                 // letters 'a'.. map to glyph ids 1..ALPHA (+ spare glyphs up to 20 for outputs)
static const unsigned NGLYPH_USED = 20;

struct RuleDef { std::vector<unsigned> match; Bytes action; Bytes constraint; };
struct PassDef { std::vector<RuleDef> rules; unsigned maxloop; unsigned prectx = 0; Bytes pcons; bool revdir = false; };   // prectx: pre-context length shared by all rules of the pass; pcons: pass constraint

static void w8(Bytes &b, unsigned v) { b.push_back(u8(v)); }
static void w16(Bytes &b, unsigned v) { put16(b, v); }
static void w32(Bytes &b, u32 v) { put32(b, v); }

// opcodes (on-disk numbering)
enum { NOP = 0, PUSH_BYTE = 1, PUSH_BYTEU = 2, PUSH_SHORT = 3, PUSH_SHORTU = 4, PUSH_LONG = 5, ADD = 6, NEG = 12, TRUNC8 = 13, TRUNC16 = 14, COND = 15, AND_ = 16, NOT_ = 18, CNTXT_ITEM = 34, ATTR_SUB = 37,
       PUSH_GLYPH_ATTR_OBS = 41, PUSH_GLYPH_METRIC = 42, PUSH_FEAT = 43, PUSH_ATT_TO_GATTR_OBS = 44, PUSH_ATT_TO_GLYPH_METRIC = 45, PUSH_ISLOT_ATTR = 46, IATTR_ADD = 52, PUSH_PROC_STATE = 54, PUSH_VERSION = 55,
       PUSH_GLYPH_ATTR = 60, PUSH_ATT_TO_GLYPH_ATTR = 61, BITNOT = 64, BITSET = 65, NEXT = 25, COPY_NEXT = 27, PUT_GLYPH8 = 28, PUT_SUBS8 = 29, PUT_COPY = 30, INSERT = 31, DELETE = 32, ASSOC = 33,
       ATTR_SET = 35, ATTR_ADD = 36, ATTR_SET_SLOT = 38, IATTR_SET_SLOT = 39, PUSH_SLOT_ATTR = 40, POP_RET = 48, RET_ZERO = 49, RET_TRUE = 50, IATTR_SET = 51 };


// Stack expressions: every generated expression leaves exactly one value. Slot references stay inside [rel_lo, rel_hi]
// (what the loader accepts at this point of the rule) except for a rare stray one.
static void gen_leaf(Rng &r, int rel_lo, int rel_hi, unsigned numUser, Bytes &a) {
    int rel = rel_lo + int(r.below(u32(rel_hi - rel_lo + 1)));
    if (r.chance(1, 120)) rel = int(r.below(7)) - 3;
    static const u32 longs[] = {0x7FFFFFFFu, 0x80000000u, 0xFFFFFFFFu, 0, 1, 0x00010000u, 0x7FFF0000u, 0x80000001u};
    static const unsigned attrs[] = {0, 1, 2, 3, 4, 13, 14, 15, 16, 17, 18, 19, 20, 21, 22, 23, 24, 25, 26, 27, 28, 29, 54, 56, 57, 58, 62, 66, 69, 77};
    u32 c = r.below(100);
    if (c < 16) { w8(a, PUSH_BYTE); w8(a, r.below(256)); }
    else if (c < 21) { w8(a, PUSH_BYTEU); w8(a, r.below(256)); }
    else if (c < 29) { w8(a, PUSH_SHORT); w16(a, r.chance(1, 4) ? (r.chance(1, 2) ? 0x7FFF : 0x8000) : r.below(65536)); }
    else if (c < 33) { w8(a, PUSH_SHORTU); w16(a, r.below(65536)); }
    else if (c < 42) { w8(a, PUSH_LONG); w32(a, r.chance(1, 2) ? longs[r.below(8)] : u32(r.next())); }
    else if (c < 60) { unsigned at = r.chance(1, 3) ? r.below(78) : attrs[r.below(sizeof attrs / sizeof attrs[0])]; if (at == 55) at = 0; w8(a, PUSH_SLOT_ATTR); w8(a, at); w8(a, u8(i64(rel))); }
    else if (c < 66) { w8(a, r.chance(1, 2) ? PUSH_GLYPH_ATTR_OBS : PUSH_ATT_TO_GATTR_OBS); w8(a, r.chance(1, 10) ? r.below(6) : r.below(3)); w8(a, u8(i64(rel))); }
    else if (c < 70) { w8(a, r.chance(1, 2) ? PUSH_GLYPH_ATTR : PUSH_ATT_TO_GLYPH_ATTR); w16(a, r.chance(1, 10) ? r.below(6) : r.below(3)); w8(a, u8(i64(rel))); }
    else if (c < 80) { w8(a, r.chance(1, 2) ? PUSH_GLYPH_METRIC : PUSH_ATT_TO_GLYPH_METRIC); w8(a, r.below(11)); w8(a, u8(i64(rel))); w8(a, r.below(3)); }
    else if (c < 84) { w8(a, PUSH_FEAT); w8(a, r.chance(1, 10) ? 1 : 0); w8(a, u8(i64(rel))); }
    else if (c < 92) { w8(a, PUSH_ISLOT_ATTR); if (numUser && r.chance(1, 2)) { w8(a, 55); w8(a, u8(i64(rel))); w8(a, r.below(numUser)); } else { unsigned at = r.chance(1, 3) ? 15 : r.below(30); w8(a, at); w8(a, u8(i64(rel))); w8(a, at == 15 ? r.below(255) : 0); } }
    else if (c < 96) { w8(a, PUSH_PROC_STATE); w8(a, r.below(4)); }
    else w8(a, PUSH_VERSION);
}
static void gen_expr(Rng &r, unsigned depth, int rel_lo, int rel_hi, unsigned numUser, Bytes &a) {
    if (depth == 0 || r.chance(2, 5)) { gen_leaf(r, rel_lo, rel_hi, numUser, a); return; }
    u32 c = r.below(100);
    if (c < 22) { static const u8 un[] = {NEG, NOT_, TRUNC8, TRUNC16, BITNOT}; gen_expr(r, depth - 1, rel_lo, rel_hi, numUser, a); w8(a, un[r.below(5)]); }
    else if (c < 30) { gen_expr(r, depth - 1, rel_lo, rel_hi, numUser, a); w8(a, BITSET); w16(a, r.below(65536)); w16(a, r.below(65536)); }
    else if (c < 90) { static const u8 bin[] = {6, 7, 8, 9, 10, 11, 16, 17, 19, 20, 21, 22, 23, 24, 62, 63, 8, 9, 6, 7}; gen_expr(r, depth - 1, rel_lo, rel_hi, numUser, a); gen_expr(r, depth - 1, rel_lo, rel_hi, numUser, a); w8(a, bin[r.below(20)]); }
    else { for (int q = 0; q < 3; ++q) gen_expr(r, depth - 1, rel_lo, rel_hi, numUser, a); w8(a, COND); }
}
// Rule constraint for a rule of `len` slots of which the first k are pre-context: a plain condition on the slot under test
// (references reach back into the pre-context only), or a chain of context items, each a condition on one named slot of the rule.
static void gen_constraint(Rng &r, unsigned len, unsigned k, unsigned numUser, Bytes &c) {
    if (r.chance(1, 3)) { c = {PUSH_SLOT_ATTR, 0, 0, PUSH_SHORT, 0x01, 0x00, 22 /*GTR*/, POP_RET}; return; }
    if (r.chance(1, 3)) { gen_expr(r, 2, -int(k), 0, numUser, c); if (r.chance(1, 2)) { w8(c, PUSH_BYTE); w8(c, 0); w8(c, 20 /*NOT_EQ*/); } w8(c, POP_RET); return; }
    unsigned items = 1 + r.below(len < 3 ? len : 3);
    for (unsigned j = 0; j < items; ++j) {
        int abs = int(r.below(len)), sref = abs - int(k);
        Bytes inner; gen_expr(r, r.below(3), -abs, int(len) - 1 - abs, numUser, inner);
        if (r.chance(1, 2)) { w8(inner, PUSH_BYTE); w8(inner, r.below(3)); w8(inner, 19 + r.below(6)); }
        if (inner.size() > 200) { inner.clear(); w8(inner, PUSH_BYTE); w8(inner, 1); }
        w8(c, CNTXT_ITEM); w8(c, u8(i64(sref))); w8(c, unsigned(inner.size())); c.insert(c.end(), inner.begin(), inner.end());
        if (j) w8(c, AND_);
    }
    w8(c, POP_RET);
}

static void gen_action(Rng &r, unsigned len, bool subst, Bytes &a, unsigned numUser, unsigned pre = 0) {
    const unsigned total = len + pre;   // len: slots the action walks (the rule minus its k pre-context slots)
    for (unsigned s = 0; s < len; ++s) {
        if (subst && s == 0 && r.chance(1, 30)) {    // the slot is deleted and a new one inserted in its place within one rule
            w8(a, DELETE); w8(a, INSERT); if (r.chance(1, 2)) { w8(a, PUT_GLYPH8); w8(a, r.below(NGLYPH_USED)); } w8(a, NEXT);
            for (unsigned q = 1; q < len; ++q) w8(a, NEXT);
            w8(a, RET_ZERO); return;
        }
        if (subst && s + 1 == len && r.chance(1, 400)) {  // deletes the look-ahead slot behind the matched range as well: the loader must refuse it
            w8(a, DELETE); w8(a, NEXT); w8(a, DELETE); w8(a, RET_ZERO); return;
        }
        if (subst && s + 1 == len && r.chance(1, 40)) {   // the action ends on the slot it has just deleted (no NEXT): the pass has to move its cursor off a slot that is being recycled
            w8(a, DELETE); w8(a, RET_ZERO); return;
        }
        if (subst && r.chance(1, 25)) {     // insertion burst: many new slots from one input slot (slot-pool growth paths, growth cap)
            unsigned k = 2 + r.below(20);
            for (unsigned q = 0; q < k; ++q) { w8(a, INSERT); w8(a, PUT_GLYPH8); w8(a, r.below(NGLYPH_USED)); w8(a, NEXT); }
        }
        if (subst && r.chance(1, 6)) {      // a new slot inserted before input slot s (does not consume input)
            w8(a, INSERT); w8(a, PUT_GLYPH8); w8(a, r.below(NGLYPH_USED));
            // inside the insert block the loader's slot reference is one behind: valid refs are [1-(s+pre), total-(s+pre)]
            if (r.chance(1, 2)) { w8(a, ASSOC); w8(a, 1); w8(a, u8(i64(1 + int(r.below(total)) - int(s + pre)))); }
            if (r.chance(1, 4)) { w8(a, PUSH_BYTE); w8(a, u8(i64(int(r.below(total)) - int(s + pre)))); w8(a, ATTR_SET_SLOT); w8(a, 2); }
            w8(a, NEXT);
        }
        unsigned nops = r.below(4);
        bool deleted = false;
        for (unsigned k = 0; k < nops && !deleted; ++k) {
            u32 c = r.below(100);
            int rel_lo = -int(s + pre), rel_hi = int(total - 1 - (s + pre));
            int rel = rel_lo + int(r.below(u32(rel_hi - rel_lo + 1)));
            if (r.chance(1, 80)) rel = int(r.below(7)) - 3;               // rarely outside the rule (mostly rejected by the loader)
            if (r.chance(1, 7)) {    // a computed value written to (mostly) any slot attribute
                gen_expr(r, 1 + r.below(3), rel_lo, rel_hi, numUser, a);
                static const u8 wr[] = {ATTR_SET, ATTR_ADD, ATTR_SUB};
                if (numUser && r.chance(1, 6)) { w8(a, r.chance(1, 2) ? IATTR_SET : IATTR_ADD); w8(a, 55); w8(a, r.below(numUser)); }
                else if (r.chance(1, 8)) { unsigned at = r.chance(1, 3) ? 15 : r.below(30); w8(a, r.chance(1, 2) ? IATTR_SET : IATTR_SET_SLOT); w8(a, at); w8(a, at == 15 ? r.below(255) : 0); }
                else { unsigned at = r.chance(1, 2) ? r.below(78) : (r.chance(1, 2) ? r.below(2) : 18 + r.below(4)); if (at == 55) at = 22; w8(a, wr[r.below(3)]); w8(a, at); }
                continue;
            }
            if (c < 22) { w8(a, PUSH_BYTE); w8(a, u8(i64(rel))); w8(a, ATTR_SET_SLOT); w8(a, 2); }                 // attach.to = slot(rel)
            else if (c < 30) { w8(a, PUSH_BYTE); w8(a, r.below(60)); w8(a, ATTR_SET); w8(a, 3 + r.below(2)); }      // attach.at x/y
            else if (c < 38) { w8(a, PUSH_SHORT); w16(a, r.chance(1, 8) ? 0x7FFF : r.below(2000)); w8(a, ATTR_SET); w8(a, r.below(2)); }   // advance x/y
            else if (c < 44) { w8(a, PUSH_BYTE); w8(a, r.below(200)); w8(a, ATTR_ADD); w8(a, 20 + r.below(2)); }  // shift
            else if (c < 52 && subst) { w8(a, PUT_GLYPH8); w8(a, r.below(NGLYPH_USED)); }
            else if (c < 60 && subst) { w8(a, PUT_COPY); w8(a, u8(i64(rel))); }
            else if (c < 70 && subst) { if (r.chance(1, 2)) { w8(a, PUT_COPY); w8(a, 0); } w8(a, DELETE); deleted = true; }
            else if (c < 78 && subst) { w8(a, PUSH_BYTE); w8(a, r.below(2)); w8(a, ATTR_SET); w8(a, 17); }
            else if (c < 86 && subst) { unsigned n = 1 + r.below(3); w8(a, ASSOC); w8(a, n); for (unsigned q = 0; q < n; ++q) w8(a, u8(i64(rel_lo + int(r.below(u32(rel_hi - rel_lo + 1)))))); }
            else if (c < 92 && numUser) { w8(a, PUSH_BYTE); w8(a, r.below(100)); w8(a, IATTR_SET); w8(a, 55); w8(a, r.chance(1, 30) ? numUser : r.below(numUser)); }
            else if (c < 94) { w8(a, PUSH_BYTE); w8(a, r.below(3)); w8(a, ATTR_SET); w8(a, 17); }                   // insert attr
            else if (c < 96) { w8(a, PUSH_BYTE); w8(a, r.below(90)); w8(a, r.chance(1, 2) ? ATTR_SET : ATTR_ADD); w8(a, 22); }   // user1 through the legacy alias, whatever numUserDefn is
            else { w8(a, PUSH_SLOT_ATTR); w8(a, r.below(2)); w8(a, u8(i64(rel))); w8(a, PUSH_BYTE); w8(a, 3); w8(a, ADD); w8(a, ATTR_SET); w8(a, 0); }
        }
        w8(a, r.chance(1, 6) && subst ? COPY_NEXT : NEXT);
    }
    if (r.chance(2, 3)) w8(a, r.chance(1, 5) ? RET_TRUE : RET_ZERO);
    else { w8(a, PUSH_BYTE); w8(a, u8(i64(int(r.below(5)) - 2))); w8(a, POP_RET); }
}

static Bytes build_pass(const PassDef &pd, size_t base, bool zerocol) {
    // trie over glyph columns
    struct Node { std::map<unsigned, int> next; std::vector<unsigned> rules; };
    std::vector<Node> nodes(1);
    for (size_t ri = 0; ri < pd.rules.size(); ++ri) {
        int cur = 0;
        for (unsigned g : pd.rules[ri].match) { auto it = nodes[size_t(cur)].next.find(g); if (it == nodes[size_t(cur)].next.end()) { nodes.push_back(Node()); int id = int(nodes.size()) - 1; nodes[size_t(cur)].next[g] = id; cur = id; } else cur = it->second; }
        nodes[size_t(cur)].rules.push_back(unsigned(ri));
    }
    // order: pure internal, both, pure terminal; root first
    std::vector<int> order; std::vector<int> cls(nodes.size());
    for (size_t i = 0; i < nodes.size(); ++i) cls[i] = (nodes[i].next.empty() ? 2 : (nodes[i].rules.empty() ? 0 : 1));
    for (int c = 0; c < 3; ++c) for (size_t i = 0; i < nodes.size(); ++i) if (cls[i] == c) order.push_back(int(i));
    std::vector<int> newid(nodes.size()); for (size_t k = 0; k < order.size(); ++k) newid[size_t(order[k])] = int(k);
    size_t numStates = nodes.size(), numTrans = 0, numSuccess = 0;
    for (size_t i = 0; i < nodes.size(); ++i) { if (cls[i] <= 1) ++numTrans; if (cls[i] >= 1) ++numSuccess; }
    const unsigned numCols = ALPHA, numRules = unsigned(pd.rules.size());
    Bytes p;
    w8(p, pd.revdir ? 0x20 : 0); w8(p, pd.maxloop); w8(p, 3); w8(p, 0);     // flags (bit 5: the pass runs against the font's direction)
    w16(p, numRules); w16(p, 0);
    const size_t o_pc = p.size(); w32(p, 0); const size_t o_rc = p.size(); w32(p, 0); const size_t o_ac = p.size(); w32(p, 0); w32(p, 0);
    w16(p, u32(numStates)); w16(p, u32(numTrans)); w16(p, u32(numSuccess)); w16(p, numCols);
    w16(p, numCols + (zerocol ? 1 : 0)); w16(p, 0); w16(p, 0); w16(p, 0);
    if (zerocol) { w16(p, 0); w16(p, 0); w16(p, 0); }     // glyph 0 (.notdef: unmapped characters, and what a recycled slot holds) shares the first letter's column
    for (unsigned g = 0; g < numCols; ++g) { w16(p, g + 1); w16(p, g + 1); w16(p, g); }     // glyph g+1 -> column g
    // rule map offsets for success states in state order
    std::vector<unsigned> rulemap; std::vector<unsigned> orm;
    for (size_t k = numStates - numSuccess; k < numStates; ++k) { orm.push_back(unsigned(rulemap.size())); for (unsigned ri : nodes[size_t(order[k])].rules) rulemap.push_back(ri); }
    orm.push_back(unsigned(rulemap.size()));
    for (unsigned v : orm) w16(p, v);
    for (unsigned v : rulemap) w16(p, v);
    w8(p, pd.prectx); w8(p, pd.prectx); // min/max pre-context: every rule of the pass has the same one, so one start state
    w16(p, 0);                          // start state
    for (auto &rl : pd.rules) w16(p, u32(rl.match.size()));      // sort keys
    for (size_t i = 0; i < pd.rules.size(); ++i) w8(p, pd.prectx);   // pre-contexts
    w8(p, 0);                           // collision threshold
    w16(p, u32(pd.pcons.size()));       // pass constraint length
    // constraint offsets (0 = none), one dummy byte at offset 0
    size_t coff = 1; std::vector<unsigned> oc;
    for (auto &rl : pd.rules) { if (rl.constraint.empty()) oc.push_back(0); else { oc.push_back(unsigned(coff)); coff += rl.constraint.size(); } }
    oc.push_back(unsigned(coff));
    for (unsigned v : oc) w16(p, v);
    size_t aoff = 0; for (auto &rl : pd.rules) { w16(p, u32(aoff)); aoff += rl.action.size(); } w16(p, u32(aoff));
    for (size_t k = 0; k < numTrans; ++k) { const Node &n = nodes[size_t(order[k])]; for (unsigned c = 0; c < numCols; ++c) { auto it = n.next.find(c + 1); w16(p, it == n.next.end() ? 0 : u32(newid[size_t(it->second)])); } }
    w8(p, 0);
    set32(p, o_pc, u32(base + p.size())); p.insert(p.end(), pd.pcons.begin(), pd.pcons.end()); set32(p, o_rc, u32(base + p.size()));
    w8(p, 0); for (auto &rl : pd.rules) p.insert(p.end(), rl.constraint.begin(), rl.constraint.end());
    set32(p, o_ac, u32(base + p.size()));
    for (auto &rl : pd.rules) p.insert(p.end(), rl.action.begin(), rl.action.end());
    return p;
}

// program encoding in Fault.a (OVR_SILFPROG): [np, nsub, numUser, ijust_is_np, rtl, then per pass: maxloop, nrules, per rule: len, match[len], conslen, cons[conslen], alen, action[alen]]
struct SynthHdr { bool hugecls = false;   /* class map announcing 32766+ linear classes with 16-bit offsets (the arithmetic on them no longer fits 16 bits) */ unsigned skipattr = 0;   /* 0 = none, a+1 = glyph attribute a holds the per-glyph pass-skip bits */ bool badlb = false; bool zerocol = false; unsigned bidi = 0;   /* bidi: 0 = no bidi pass, k+1 = the bidi step sits before pass jPass+k (clamped) */ unsigned flags = 0; std::vector<unsigned> just; unsigned nlb = 0; };   // nlb: the first nlb passes are line-break passes (iSubst = nlb)   // Silf flags byte (bit 0: line-end contextuals), justification levels (4 attribute numbers each)
static void encode_prog(const std::vector<PassDef> &passes, unsigned nsub, unsigned numUser, bool ijust_np, bool rtl, const SynthHdr &h, std::vector<i64> &a) {
    a = {i64(passes.size()), i64(nsub), i64(numUser), ijust_np ? 1 : 0, i64((rtl ? 1 : 0) | (h.bidi << 4)), i64(h.flags | (h.badlb ? 2u : 0u) | (h.zerocol ? 4u : 0u) | (h.hugecls ? 8u : 0u) | (h.skipattr << 4)), i64(h.just.size() / 4)};
    for (unsigned v : h.just) a.push_back(v);
    a.push_back(h.nlb);
    for (auto &pd : passes) { a.push_back(i64(pd.maxloop | (pd.prectx << 8) | (pd.pcons.empty() ? 0u : 0x400u) | (pd.revdir ? 0x800u : 0u))); a.push_back(i64(pd.rules.size()));
        if (!pd.pcons.empty()) { a.push_back(i64(pd.pcons.size())); for (u8 c : pd.pcons) a.push_back(c); }
        for (auto &rd : pd.rules) { a.push_back(i64(rd.match.size())); for (unsigned g : rd.match) a.push_back(g); a.push_back(i64(rd.constraint.size())); for (u8 c : rd.constraint) a.push_back(c); a.push_back(i64(rd.action.size())); for (u8 c : rd.action) a.push_back(c); } }
}
static bool decode_prog(const std::vector<i64> &a, std::vector<PassDef> &passes, unsigned &nsub, unsigned &numUser, bool &ijust_np, bool &rtl, SynthHdr &h) {
    size_t i = 0; auto get = [&](i64 &v) { if (i >= a.size()) return false; v = a[i++]; return true; };
    i64 np, v; if (!get(np) || np < 1 || np > 16) return false; if (!get(v)) return false; nsub = unsigned(v < 0 ? 0 : v > np ? np : v); if (!get(v)) return false; numUser = unsigned(v & 7);
    if (!get(v)) return false; ijust_np = v != 0; if (!get(v)) return false; rtl = (v & 1) != 0; const unsigned bidi_in = unsigned((v >> 4) & 0xF);
    if (!get(v)) return false; h.flags = unsigned(v & 1); h.badlb = (v & 2) != 0; h.zerocol = (v & 4) != 0; h.hugecls = (v & 8) != 0; h.skipattr = unsigned((v >> 4) & 0xF); h.bidi = bidi_in;   /* bit 1: the line-end glyph id names no glyph of the font */ i64 nj; if (!get(nj) || nj < 0 || nj > 3) return false; for (i64 q = 0; q < 4 * nj; ++q) { if (!get(v)) return false; h.just.push_back(unsigned(v & 0xFF)); }
    if (!get(v)) return false; h.nlb = unsigned(v < 0 ? 0 : v); if (h.nlb > nsub) h.nlb = nsub;
    for (i64 p = 0; p < np; ++p) { PassDef pd; i64 nr; if (!get(v)) return false; pd.maxloop = unsigned(v & 0xFF); pd.prectx = unsigned((v >> 8) & 3); const bool haspc = (v & 0x400) != 0; pd.revdir = (v & 0x800) != 0; if (!get(nr) || nr < 1 || nr > 32) return false;
        if (haspc) { i64 pl; if (!get(pl) || pl < 0 || pl > 250) return false; for (i64 q = 0; q < pl; ++q) { if (!get(v)) return false; pd.pcons.push_back(u8(v)); } }
        for (i64 k = 0; k < nr; ++k) { RuleDef rd; i64 len; if (!get(len) || len < 1 || len > 8) return false; if (len <= i64(pd.prectx)) pd.prectx = unsigned(len - 1); for (i64 q = 0; q < len; ++q) { if (!get(v)) return false; rd.match.push_back(1 + unsigned(u64(v - 1) % ALPHA)); }
            i64 cl; if (!get(cl) || cl < 0 || cl > 700) return false; for (i64 q = 0; q < cl; ++q) { if (!get(v)) return false; rd.constraint.push_back(u8(v)); }
            i64 al; if (!get(al) || al < 0 || al > 400) return false; for (i64 q = 0; q < al; ++q) { if (!get(v)) return false; rd.action.push_back(u8(v)); }
            pd.rules.push_back(rd); }
        passes.push_back(pd); }
    return true;
}

static std::vector<std::vector<unsigned>> g_last_matches;   // match sequences of the program generated last (texts of the same plan are built from them)
static void gen_prog(u64 seed, std::vector<i64> &out) {
    Rng r(seed);
    unsigned np = 1 + r.below(4), nsub = r.below(np + 1); if (r.chance(1, 2) && nsub == 0) nsub = 1;
    unsigned numUser = r.below(3);
    std::vector<PassDef> passes;
    // "forest" programs (half of them): the passes share a few match sequences over a 3-letter alphabet, so later passes meet the
    // slots earlier passes attached, and actions are mostly attachments: clusters with several children, re-attachment, deep chains
    const bool forest = r.chance(1, 2);
    std::vector<std::vector<unsigned>> shared;
    if (forest) { unsigned ns = 1 + r.below(3); for (unsigned q = 0; q < ns; ++q) { std::vector<unsigned> m;
            if (q && r.chance(1, 2)) { m = shared[r.below(q)]; if (m.size() < 4 && r.chance(2, 3)) m.push_back(1 + r.below(3)); else if (m.size() > 2) m.pop_back(); else m.insert(m.begin(), 1 + r.below(3)); }   // one sequence extends another: a later pass sees the earlier rule's slots plus a neighbour
            else { unsigned len = 2 + r.below(3); for (unsigned z = 0; z < len; ++z) m.push_back(1 + r.below(3)); }
            shared.push_back(m); } if (np < 2) np = 2; }
    const bool zerocol = r.chance(1, 3);   // glyph 0 shares the first letter's FSM column (decided here: some rule templates depend on it)
    const bool fan = r.chance(1, 40);     // one rule re-fires in place up to maxRuleLoop (120..250) times, each time inserting a slot attached to the same parent
    if (fan && nsub == 0) nsub = 1;
    for (unsigned i = 0; i < np; ++i) {
        PassDef pd; pd.maxloop = r.chance(1, 4) ? 1 + r.below(3) : 5 + r.below(10);
        if (fan && i == 0) {
            pd.maxloop = 120 + r.below(131);
            RuleDef rd; rd.match = {1 + r.below(3), 1 + r.below(3)};
            rd.action = {NEXT, NEXT, INSERT, PUT_GLYPH8, u8(r.below(NGLYPH_USED)), PUSH_BYTE, u8(r.chance(1, 2) ? 255 : 0), ATTR_SET_SLOT, 2, NEXT, PUSH_BYTE, 253, POP_RET};
            pd.rules.push_back(rd); passes.push_back(pd); continue;
        }
        unsigned nr = 1 + r.below(4);
        pd.revdir = r.chance(1, 8);
        const unsigned pk = r.chance(1, 4) ? 1 + r.below(2) : 0;     // pre-context shared by the rules of this pass
        pd.prectx = pk;
        if (r.chance(1, 8)) { gen_expr(r, 2, 0, 0, numUser, pd.pcons); w8(pd.pcons, POP_RET); if (pd.pcons.size() > 240) pd.pcons = {PUSH_BYTE, 1, POP_RET}; }
        for (unsigned k = 0; k < nr; ++k) {
            RuleDef rd; unsigned len = pk + 1 + r.below(3);          // whole rule, pre-context included
            bool shared_match = false;
            if (forest && r.chance(3, 4)) { const auto &m = shared[r.below(u32(shared.size()))]; if (m.size() > pk) { rd.match = m; len = unsigned(m.size()); shared_match = true; } }
            if (!shared_match) for (unsigned q = 0; q < len; ++q) rd.match.push_back(1 + r.below(r.chance(1, 2) ? 3 : ALPHA));
            if (forest && i < nsub && len - pk >= 2 && r.chance(1, 6)) {
                // "stale copy" rules: slots are changed and read again later in the rule (so the engine works on temporary
                // copies taken when the rule started), some are deleted, and later slots copy from / attach to / read them
                for (unsigned sl = pk; sl < len; ++sl) {
                    const bool last = sl + 1 == len;
                    int back = sl > 0 ? -int(1 + r.below(sl)) : 0;         // an earlier slot of the rule (pre-context included)
                    if (sl > pk && r.chance(1, 2)) { w8(rd.action, PUT_COPY); w8(rd.action, u8(i64(back))); }
                    if (r.chance(9, 10)) { w8(rd.action, PUT_GLYPH8); w8(rd.action, r.below(NGLYPH_USED)); }
                    for (unsigned q = 0; sl > 0 && q < 2; ++q) if (r.chance(2, 3)) { int b2 = -int(1 + r.below(sl)); w8(rd.action, r.chance(1, 2) ? PUSH_SLOT_ATTR : PUSH_GLYPH_ATTR_OBS); w8(rd.action, r.below(2)); w8(rd.action, u8(i64(b2))); w8(rd.action, ATTR_SET); w8(rd.action, r.below(2)); }
                    if (r.chance(1, 4)) { int tgt = int(r.below(len)); w8(rd.action, PUSH_BYTE); w8(rd.action, u8(i64(tgt - int(sl)))); w8(rd.action, ATTR_SET_SLOT); w8(rd.action, 2); }
                    if (!last && r.chance(1, 3)) w8(rd.action, DELETE);
                    w8(rd.action, NEXT);
                }
                w8(rd.action, RET_ZERO);
            } else
            if (forest && r.chance(2, 3)) {
                // every slot but one attaches to some other slot of the rule (mostly to one common parent), now and then something else happens too
                unsigned parent = r.below(len);
                for (unsigned sl = pk; sl < len; ++sl) {
                    if ((sl != parent && r.chance(5, 6)) || r.chance(1, 6)) { int tgt = r.chance(3, 4) ? int(parent) : int(r.below(len)); w8(rd.action, PUSH_BYTE); w8(rd.action, u8(i64(tgt - int(sl)))); w8(rd.action, ATTR_SET_SLOT); w8(rd.action, 2); }
                    if (i < nsub && r.chance(1, 10)) { if (r.chance(1, 2)) { w8(rd.action, PUT_COPY); w8(rd.action, u8(i64(int(r.below(len)) - int(sl)))); } else { w8(rd.action, DELETE); } }
                    w8(rd.action, NEXT);
                }
                w8(rd.action, RET_ZERO);
            } else
            gen_action(r, len - pk, i < nsub, rd.action, numUser, pk);
            if (zerocol && i < nsub && pk == 0 && r.chance(1, 10)) {   // "drop what the font cannot show": one slot, deleted, and the action ends on it
                rd.match = {1}; rd.action = {DELETE, RET_ZERO}; len = 1;
            }
            if (!getenv("SYN_NOCONS") && r.chance(1, 4)) gen_constraint(r, len, pk, numUser, rd.constraint);
            pd.rules.push_back(rd);
        }
        passes.push_back(pd);
    }
    SynthHdr h; if (r.chance(1, 3)) { h.flags = 1; h.badlb = r.chance(1, 5); } h.zerocol = zerocol; if (r.chance(1, 5)) h.bidi = 1 + r.below(4); if (r.chance(1, 6)) h.skipattr = 1 + r.below(8); if (r.chance(1, 60)) h.hugecls = true; if (r.chance(1, 4)) h.nlb = r.below(nsub + 1); if (r.chance(1, 3)) { unsigned nj = 1 + r.below(2); for (unsigned q = 0; q < 4 * nj; ++q) h.just.push_back(r.below(6)); }
    g_last_matches.clear(); for (auto &pd : passes) for (auto &rd : pd.rules) g_last_matches.push_back(rd.match);
    encode_prog(passes, nsub, numUser, r.chance(1, 2), r.chance(1, 4), h, out);
}

void silf_override(Store &st, const Fault &f) {
    std::vector<i64> prog;
    if (f.kind == "OVR_SILFPROG") prog = f.a; else gen_prog(u64(f.a.empty() ? 1 : f.a[0]), prog);
    std::vector<PassDef> passes; unsigned nsub = 0, numUser = 0; bool ijust_np = false, rtl = false; SynthHdr hdr;
    if (!decode_prog(prog, passes, nsub, numUser, ijust_np, rtl, hdr)) { probe("synth:program-undecodable"); return; }
    const unsigned np = unsigned(passes.size());
    auto mx = st.tables.find(mktag("maxp")); if (mx == st.tables.end() || mx->second.size() < 6) return;
    unsigned nglyphs = be16(&mx->second[4]); if (nglyphs <= NGLYPH_USED + 1) return;
    if (getenv("SYN_DUMP")) for (unsigned i = 0; i < np; ++i) { fprintf(stderr, "pass %u (%s) maxloop %u prectx %u pcons %zu\n", i, i < nsub ? "subst" : "pos", passes[i].maxloop, passes[i].prectx, passes[i].pcons.size()); for (auto &rd : passes[i].rules) { fprintf(stderr, "  rule match"); for (unsigned g : rd.match) fprintf(stderr, " g%u", g); fprintf(stderr, " action:"); for (u8 b : rd.action) fprintf(stderr, " %d", int(b)); if (!rd.constraint.empty()) { fprintf(stderr, " constraint:"); for (u8 b : rd.constraint) fprintf(stderr, " %d", int(b)); } fprintf(stderr, "\n"); } }
    Bytes s;
    w16(s, nglyphs - 1); w16(s, 0); w16(s, 0);
    w8(s, np); w8(s, hdr.nlb); w8(s, nsub); w8(s, ijust_np ? np : nsub); { const unsigned jp = ijust_np ? np : nsub; w8(s, hdr.bidi ? std::min(np, jp + hdr.bidi - 1) : 0xFF); } w8(s, hdr.flags); w8(s, 0); w8(s, 0);
    // the four glyph-attribute indices (pseudo, break weight, directionality, mirroring) are taken from the font's own Silf
    // table, so that pseudo-glyph and mirror attributes keep naming real glyphs (C03 gid clause stays applicable)
    unsigned ga[4] = {0, 0, 0, 0};
    { auto sf = st.tables.find(mktag("Silf")); if (sf != st.tables.end()) { const Bytes &o = sf->second; if (o.size() >= 12) { u32 ver = be32(&o[0]); size_t pp = 4 + (ver >= 0x00030000 ? 4 : 0); if (pp + 8 <= o.size()) { size_t q = be32(&o[pp + 4]) + (ver >= 0x00030000 ? 8 : 0); if (q + 18 <= o.size()) for (int k = 0; k < 4; ++k) ga[k] = o[q + 14 + size_t(k)]; } } } }
    for (int k = 0; k < 4; ++k) w8(s, ga[k]);
    { unsigned na = 1; auto gl = st.tables.find(mktag("Gloc")); if (gl != st.tables.end() && gl->second.size() >= 8) na = be16(&gl->second[6]); w8(s, hdr.skipattr && na ? (hdr.skipattr - 1) % na : 0); }   // attrSkipPasses
    {   // justification levels: attribute numbers must exist in the font
        unsigned nattrs = 1; auto gl = st.tables.find(mktag("Gloc")); if (gl != st.tables.end() && gl->second.size() >= 8) nattrs = be16(&gl->second[6]); if (!nattrs) nattrs = 1;
        w8(s, unsigned(hdr.just.size() / 4));
        for (size_t k = 0; k + 3 < hdr.just.size(); k += 4) { for (int q = 0; q < 4; ++q) w8(s, hdr.just[k + size_t(q)] % nattrs); w8(s, 0); w8(s, 0); w8(s, 0); w8(s, 0); }
    }
    w16(s, 0); w8(s, numUser); w8(s, 0); w8(s, rtl ? 2 : 1); w8(s, 0); w8(s, 0); w8(s, 0); w8(s, 0); w8(s, 0); w8(s, 0); w8(s, 0);
    w16(s, hdr.badlb ? 0xFFFF : nglyphs - 1);    // line-break glyph id
    const size_t o_passes = s.size(); for (unsigned i = 0; i <= np; ++i) w32(s, 0);
    w16(s, 0); w16(s, 0); w16(s, 0); w16(s, 0);
    // class map: NGLYPH_USED linear classes, class c = { glyph c+1 }
    if (hdr.hugecls) {
        // 32766..32767 linear classes, offsets self-consistent modulo 2^16 (first offset = (4 + 2*(n+1)) & 0xFFFF), almost no class data
        const unsigned n = 32766 + (prog.size() & 1);
        w16(s, n); w16(s, n);
        const unsigned first = (4 + 2 * (n + 1)) & 0xFFFF;
        for (unsigned c = 0; c <= n; ++c) w16(s, (first + 2 * c) & 0xFFFF);
        for (unsigned c = 0; c < 32; ++c) w16(s, c + 1);
    } else {
    w16(s, NGLYPH_USED); w16(s, NGLYPH_USED);
    for (unsigned c = 0; c <= NGLYPH_USED; ++c) w16(s, 4 + 2 * (NGLYPH_USED + 1) + 2 * c);
    for (unsigned c = 0; c < NGLYPH_USED; ++c) w16(s, c + 1);
    }
    for (unsigned i = 0; i < np; ++i) { set32(s, o_passes + 4 * i, u32(s.size())); Bytes p = build_pass(passes[i], s.size(), hdr.zerocol); s.insert(s.end(), p.begin(), p.end()); }
    set32(s, o_passes + 4 * np, u32(s.size()));
    Bytes t; w32(t, 0x00020000); w16(t, 1); w16(t, 0); w32(t, 12); t.insert(t.end(), s.begin(), s.end());
    st.tables[mktag("Silf")] = t;
    // cmap: format 4, 'a'..'a'+ALPHA-1 -> glyphs 1..ALPHA
    Bytes c; w16(c, 0); w16(c, 1); w16(c, 3); w16(c, 1); w32(c, 12);
    w16(c, 4); w16(c, 32); w16(c, 0); w16(c, 4); w16(c, 4); w16(c, 1); w16(c, 0);
    w16(c, 0x61 + ALPHA - 1); w16(c, 0xFFFF); w16(c, 0); w16(c, 0x61); w16(c, 0xFFFF); w16(c, (1 - 0x61) & 0xFFFF); w16(c, 1); w16(c, 0); w16(c, 0);
    st.tables[mktag("cmap")] = c;
    probe("synth:tables-built");
}

void synth_program(u64 seed, std::vector<i64> &out) { gen_prog(seed, out); }
std::vector<u32> synth_text(Rng &r, unsigned maxlen) {
    // mostly made of the program's own match sequences (so that rules fire, and fire next to each other), glued with random letters
    std::vector<u32> t; unsigned len = 1 + r.below(maxlen); bool narrow = r.chance(1, 2);
    while (t.size() < len) {
        if (!g_last_matches.empty() && r.chance(3, 5)) {
            const std::vector<unsigned> *m = &g_last_matches[r.below(u32(g_last_matches.size()))], *m2 = &g_last_matches[r.below(u32(g_last_matches.size()))];
            if (m2->size() > m->size()) m = m2;
            for (unsigned g : *m) t.push_back(0x60 + g);
        } else t.push_back(r.chance(1, 8) ? 0x20 : 0x61 + r.below(narrow ? 3 : ALPHA));
    }
    return t;
}

Plan gen_synth(u64 seed) {
    Rng r(seed); Plan p; p.mode = "synth"; p.seed = seed;
    static const char *bases[] = {"grtest1gr", "general", "PigLatinBenchmark_v3", "underflow", "Padauk", "charis_r_gr"};
    std::string font = bases[r.below(6)];
    Op mf; mf.kind = "make_face"; mf.s = font; mf.a = {0, 0, i64(r.below(8)), 0, 0};
    Fault f; f.kind = "OVR_SILFPROG"; f.tag = "Silf"; gen_prog(r.next(), f.a); mf.faults.push_back(f);     // the rule program is explicit in the plan: replay files are self-describing and shrinkable
    p.ops.push_back(mf);
    if (r.chance(1, 2)) { Op o; o.kind = "make_font"; o.a = {0, i64(16 * (4 + r.below(60)))}; p.ops.push_back(o); }
    unsigned n = 3 + r.below(g_tier ? 12 : 6);
    for (unsigned i = 0; i < n; ++i) {
        Op o; o.kind = "probe_seg"; static const int encs[] = {1, 2, 4};
        o.a = {0, r.chance(1, 2) ? 16 * 20 : 0, encs[r.below(3)], i64(r.below(8)), 0};
        unsigned len = r.chance(1, 10) ? 30 + r.below(100) : (r.chance(1, 6) ? 1 : 1 + r.below(10));
        if (r.chance(1, 3)) { bool narrow = r.chance(1, 2); for (unsigned k = 0; k < len; ++k) o.text.push_back(r.chance(1, 20) ? 0x20 : 0x61 + r.below(narrow ? 3 : ALPHA)); }
        else { o.text = synth_text(r, len); if (len == 1) o.text.resize(1); }
        p.ops.push_back(o);
    }
    Op d; d.kind = "destroy_face"; d.a = {0}; p.ops.push_back(d);
    return p;
}

} // namespace sim

// debugging aid (not used by any check): why does the loader refuse a synthesised font?
#include "inc/Face.h"
#include "inc/TtfUtil.h"
namespace sim {
void synth_debug(u64 from, u64 to) {
    std::map<std::pair<unsigned, unsigned>, unsigned> hist;
    for (u64 i = from; i < to; ++i) {
        Plan p = gen_synth(mix64(i, 5));
        const Op &mf = p.ops[0];
        Store st; st.tables = g_corpus.find(mf.s)->tables;
        silf_override(st, mf.faults[0]);
        gr_face_ops ops = {sizeof(gr_face_ops), store_get_table, store_release_table};
        graphite2::Face f(&st, ops);
        {
            graphite2::Face::Table silf(f, graphite2::TtfUtil::Tag::Silf, 0x00050000);
            bool ok = silf && f.readGlyphs(0) && f.readFeatures() && f.readGraphite(silf);
            ++hist[std::make_pair(ok ? 0u : f.error(), ok ? 0u : f.error_context() & 0xFF)];
            if (!ok && getenv("SYN_WHY")) { fprintf(stderr, "#### index %llu error %u context 0x%x (rule %u pass %u)\n", (unsigned long long)i, f.error(), f.error_context(), f.error_context() >> 24, (f.error_context() >> 8) & 0xFF); setenv("SYN_DUMP", "1", 1); Store st2; st2.tables = g_corpus.find(mf.s)->tables; silf_override(st2, mf.faults[0]); unsetenv("SYN_DUMP"); }
        }
    }
    for (auto &h : hist) printf("error=%u context=0x%x : %u\n", h.first.first, h.first.second, h.second);
}
}
