// temporary stubs (replaced as modes are implemented)
#include "modes.h"
namespace sim {
#if 0
Plan gen_feat(u64) { return Plan(); } void run_feat(const Plan &) {} void feat_override(Store &, const Fault &) {}
#endif
#if 0
Plan gen_lz4(u64) { return Plan(); } void run_lz4(const Plan &) {} Plan gen_lz4c(u64) { return Plan(); } void run_lz4c(const Plan &) {} void lz4_override(Store &, const Fault &) {}
#endif
#ifndef HAVE_CONC
Plan gen_conc(u64) { return Plan(); } void run_conc(const Plan &) {}
#endif
#if 0
Plan gen_fuzzreg(u64) { return Plan(); } size_t fuzzreg_count() { return 0; }
#endif
}
