// Text items, the harness's own encoder and the reference decoder (C05 oracle).
// An item is a Unicode scalar value (< 0x110000, not a surrogate, not 0) or an ill-formed item
// ILL|n which every decoding policy turns into exactly one U+FFFD (see DESIGN.md 4.3).
#pragma once
#include "util.h"

static const u32 ILL = 0x80000000u;
static const u32 ILL_TAIL = 0x00800000u;   // with ILL: a policy-ambiguous form, emitted only when it is the last item (UTF-8)
static const u32 NUL_ITEM = 0x40000000u;   // an embedded U+0000 (the caller's nChars counts past it); see check_segment for the two accepted policies
static inline bool is_ill(u32 it) { return (it & ILL) != 0; }
static inline u32 sanitize_item(u32 it) {
    if (is_ill(it)) return it;
    if (it == NUL_ITEM) return it;
    if (it == 0) return 0x20;
    if (it >= 0x110000) return 0xFFFD;
    if (it >= 0xD800 && it <= 0xDFFF) return 0xFFFD;
    return it;
}

struct Encoded {
    int enc = 1;                       // 1, 2, 4 (bytes per code unit)
    Bytes buf;                         // exact-size, NUL-terminated (one unit of zero)
    std::vector<u32> expect_usv;       // reference decoding: one entry per character
    std::vector<size_t> expect_base;   // code-unit offset of each character
    size_t nchars = 0;
    size_t first_nul = size_t(-1);     // index of the first embedded U+0000, if any
};

// kind of ill-formed UTF-8 item: 0 = lone continuation, 1 = lone lead, 2 = truncated 3/4-byte sequence
static inline int ill8_kind(u32 n) { return int(n % 3); }

static inline void encode_text(const std::vector<u32> &items_in, int enc, Encoded &out) {
    out.enc = enc; out.buf.clear(); out.expect_usv.clear(); out.expect_base.clear(); out.first_nul = size_t(-1);
    std::vector<u32> units;
    bool prev_open = false; // previous item ended in a lead/high-surrogate that a following continuation/low would complete
    for (const u32 &raw : items_in) {
        u32 it = sanitize_item(raw);
        out.expect_base.push_back(units.size());
        if (it == NUL_ITEM) { if (out.first_nul == size_t(-1)) out.first_nul = out.expect_usv.size(); out.expect_usv.push_back(0); units.push_back(0); prev_open = false; continue; }
        if (!is_ill(it)) {
            out.expect_usv.push_back(it);
            if (enc == 4) units.push_back(it);
            else if (enc == 2) { if (it < 0x10000) units.push_back(it); else { units.push_back(0xD800 - (0x10000 >> 10) + (it >> 10)); units.push_back(0xDC00 + (it & 0x3FF)); } }
            else {
                if (it < 0x80) units.push_back(it);
                else if (it < 0x800) { units.push_back(0xC0 + (it >> 6)); units.push_back(0x80 + (it & 0x3F)); }
                else if (it < 0x10000) { units.push_back(0xE0 + (it >> 12)); units.push_back(0x80 + ((it >> 6) & 0x3F)); units.push_back(0x80 + (it & 0x3F)); }
                else { units.push_back(0xF0 + (it >> 18)); units.push_back(0x80 + ((it >> 12) & 0x3F)); units.push_back(0x80 + ((it >> 6) & 0x3F)); units.push_back(0x80 + (it & 0x3F)); }
            }
            prev_open = false;
            continue;
        }
        u32 n = it & 0x007FFFFF;
        out.expect_usv.push_back(0xFFFD);
        if ((it & ILL_TAIL) && enc == 1 && &raw == &items_in.back()) {
            // ill-formed forms on whose *length* decoding policies disagree (never-valid lead bytes, over-long forms,
            // values above U+10FFFF): only as the very last character, where every policy yields U+FFFD at this offset
            u32 k = n % 5, m = n / 5; u8 c1 = u8(0x80 + (m & 0x3F)), c2 = u8(0x80 + ((m >> 6) & 0x3F)), c3 = u8(0x80 + ((m >> 12) & 0x3F));
            if (k == 0) { units.push_back(0xF8 + (m & 7)); units.push_back(c1); units.push_back(c2); units.push_back(c3); }
            else if (k == 1) { units.push_back(0xC0 + (m & 1)); units.push_back(c2); }
            else if (k == 2) { units.push_back(0xE0); units.push_back(0x80 + (m & 0x1F)); units.push_back(c2); }
            else if (k == 3) { units.push_back(0xF0); units.push_back(0x80 + (m & 0x0F)); units.push_back(c2); units.push_back(c3); }
            else { if (m & 1) { units.push_back(0xF4); units.push_back(0x90 + ((m >> 1) & 0x2F)); } else { units.push_back(0xF5 + ((m >> 1) % 3)); units.push_back(c1); } units.push_back(c2); units.push_back(c3); }
            prev_open = false;
            continue;
        }
        if (enc == 4) { units.push_back(0x110000u + (n * 2654435761u) % 0xFFEE0000u); prev_open = false; }
        else if (enc == 2) {
            bool low = (n & 1) && !prev_open;      // a lone low surrogate must not follow a lone high one
            if (low) { units.push_back(0xDC00 + ((n >> 1) & 0x3FF)); prev_open = false; }
            else { units.push_back(0xD800 + ((n >> 1) & 0x3FF)); prev_open = true; }
        } else {
            int k = ill8_kind(n); u32 m = n / 3;
            if (k == 0 && prev_open) k = 1;        // a lone continuation must not follow an open lead
            if (k == 0) { units.push_back(0x80 + (m & 0x3F)); prev_open = false; }
            else if (k == 1) { static const u8 leads[] = {0xC2, 0xC5, 0xDF, 0xE1, 0xE8, 0xEC, 0xEE, 0xEF, 0xF1, 0xF2, 0xF3}; units.push_back(leads[m % sizeof leads]); prev_open = true; }
            else {
                static const u8 leads3[] = {0xE1, 0xE5, 0xEC, 0xEE, 0xEF}; static const u8 leads4[] = {0xF1, 0xF2, 0xF3};
                if (m & 1) { units.push_back(leads3[(m >> 1) % sizeof leads3]); units.push_back(0x80 + ((m >> 4) & 0x3F)); }
                else { units.push_back(leads4[(m >> 1) % sizeof leads4]); units.push_back(0x80 + ((m >> 4) & 0x3F)); if (m & 0x400) units.push_back(0x80 + ((m >> 11) & 0x3F)); }
                prev_open = true;
            }
        }
    }
    out.nchars = items_in.size();
    units.push_back(0);
    out.buf.resize(units.size() * size_t(enc));
    for (size_t i = 0; i < units.size(); ++i) {
        if (enc == 1) out.buf[i] = u8(units[i]);
        else if (enc == 2) { u16 v = u16(units[i]); memcpy(&out.buf[i * 2], &v, 2); }
        else { u32 v = units[i]; memcpy(&out.buf[i * 4], &v, 4); }
    }
}

// Independent strict decoder used to cross-check encode_text's expectations (selftest) – decodes
// code units, one U+FFFD per maximal ill-formed subpart as restricted above.
static inline void ref_decode(const Bytes &buf, int enc, std::vector<u32> &usv, std::vector<size_t> &base) {
    usv.clear(); base.clear();
    size_t n = buf.size() / size_t(enc);
    std::vector<u32> u(n);
    for (size_t i = 0; i < n; ++i) { if (enc == 1) u[i] = buf[i]; else if (enc == 2) { u16 v; memcpy(&v, &buf[i * 2], 2); u[i] = v; } else { u32 v; memcpy(&v, &buf[i * 4], 4); u[i] = v; } }
    size_t i = 0;
    while (i < n && u[i] != 0) {
        base.push_back(i);
        if (enc == 4) { usv.push_back(u[i] < 0x110000 ? u[i] : 0xFFFD); ++i; }
        else if (enc == 2) {
            u32 c = u[i];
            if (c < 0xD800 || c > 0xDFFF) { usv.push_back(c); ++i; }
            else if (c >= 0xDC00) { usv.push_back(0xFFFD); ++i; }
            else if (i + 1 < n && u[i + 1] >= 0xDC00 && u[i + 1] <= 0xDFFF) { usv.push_back(0x10000 + ((c - 0xD800) << 10) + (u[i + 1] - 0xDC00)); i += 2; }
            else { usv.push_back(0xFFFD); ++i; }
        } else {
            u32 c = u[i];
            if (c < 0x80) { usv.push_back(c); ++i; continue; }
            int need = c >= 0xF0 ? 3 : c >= 0xE0 ? 2 : c >= 0xC0 ? 1 : -1;
            if (need < 0) { usv.push_back(0xFFFD); ++i; continue; }
            u32 v = c & (need == 3 ? 0x07 : need == 2 ? 0x0F : 0x1F); int got = 0; size_t k = i + 1;
            while (got < need && k < n && (u[k] & 0xC0) == 0x80) { v = (v << 6) | (u[k] & 0x3F); ++k; ++got; }
            if (got == need) usv.push_back(v); else usv.push_back(0xFFFD);
            i = k;
        }
    }
}
