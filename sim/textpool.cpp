#include "textpool.h"
#include <dirent.h>

namespace sim {

TextPool g_pool;
int g_pseudo_bias = 0;
u32 g_pseudo_focus = 0;      // the character whose pseudo-map key was duplicated by the last PSEUDOROT      // generator hint: the run is about the pseudo-glyph map, put its characters into most texts

static void decode_utf8(const Bytes &b, std::vector<u32> &out) {
    std::vector<size_t> base; Bytes z = b; z.push_back(0);
    // strip NULs so ref_decode sees the whole file
    for (auto &c : z) if (c == 0) c = ' '; z.back() = 0;
    ref_decode(z, 1, out, base);
    std::vector<u32> clean; for (u32 c : out) { if (c == '\r' || c == '\n' || c == 0xFEFF) c = ' '; if (c == 0xFFFD) continue; clean.push_back(c); }
    out.swap(clean);
}

static void cmap_cps(const Bytes &t, std::vector<u32> &out) {
    out.clear();
    if (t.size() < 4) return;
    unsigned n = be16(&t[2]);
    std::set<u32> s;
    for (unsigned i = 0; i < n && 4 + 8 * size_t(i) + 8 <= t.size(); ++i) {
        unsigned pid = be16(&t[4 + 8 * i]), eid = be16(&t[4 + 8 * i + 2]); size_t so = be32(&t[4 + 8 * i + 4]);
        if (!((pid == 3 && (eid == 1 || eid == 10)) || pid == 0)) continue;
        if (so + 8 > t.size()) continue;
        unsigned fmt = be16(&t[so]);
        if (fmt == 4 && so + 14 <= t.size()) {
            unsigned segx2 = be16(&t[so + 6]); size_t ends = so + 14, starts = ends + segx2 + 2;
            if (starts + segx2 > t.size()) continue;
            for (unsigned k = 0; k + 1 < segx2 && s.size() < 30000; k += 2) {
                unsigned e = be16(&t[ends + k]), st = be16(&t[starts + k]);
                if (st > e || e == 0xFFFF) continue;
                for (unsigned c = st; c <= e && s.size() < 30000; ++c) s.insert(c);
            }
        } else if (fmt == 12 && so + 16 <= t.size()) {
            u32 ng = be32(&t[so + 12]);
            for (u32 g = 0; g < ng && so + 16 + 12 * size_t(g) + 12 <= t.size() && s.size() < 30000; ++g) {
                u32 st = be32(&t[so + 16 + 12 * g]), e = be32(&t[so + 16 + 12 * g + 4]);
                if (st > e || e > 0x10FFFF) continue;
                for (u32 c = st; c <= e && s.size() < 30000; ++c) s.insert(c);
            }
        }
    }
    for (u32 c : s) if (c && !(c >= 0xD800 && c <= 0xDFFF)) out.push_back(c);
}

static bool font_has_just_impl(const FontImage &fi, bool passes_only);
bool font_has_just(const FontImage &fi) { return font_has_just_impl(fi, false); }
bool font_has_just_passes(const FontImage &fi) { return font_has_just_impl(fi, true); }   // only passes can add or remove slots during gr_seg_justify
static bool font_has_just_impl(const FontImage &fi, bool passes_only) {
    auto it = fi.tables.find(mktag("Silf")); if (it == fi.tables.end()) return true;
    const Bytes &t = it->second; if (t.size() < 12) return true;
    u32 ver = be32(&t[0]);
    if (ver >= 0x00050000 && (be32(&t[4]) >> 27) != 0) return true;       // compressed: be conservative
    size_t p = 4; if (ver >= 0x00030000) p += 4;
    if (p + 4 > t.size()) return true;
    unsigned nsub = be16(&t[p]); p += 4;
    for (unsigned s = 0; s < nsub && p + 4 <= t.size(); ++s, p += 4) {
        size_t q = be32(&t[p]); if (ver >= 0x00030000) q += 8;
        if (q + 20 > t.size()) return true;
        unsigned numPasses = t[q + 6], jPass = t[q + 9], flags = t[q + 11], numJ = t[q + 19];
        if (jPass < numPasses || (!passes_only && (numJ || (flags & 1)))) return true;
    }
    return false;
}

static std::vector<u32> hexs(const char *s) { std::vector<u32> v; char *e; while (*s) { while (*s == ' ') ++s; if (!*s) break; v.push_back(u32(strtoul(s, &e, 16))); s = e; } return v; }

void pool_build() {
    std::string dir = g_repo + "/tests/texts";
    std::vector<std::string> names;
    if (DIR *d = opendir(dir.c_str())) { while (dirent *e = readdir(d)) { std::string n = e->d_name; if (n.size() > 4 && n.substr(n.size() - 4) == ".txt") names.push_back(n); } closedir(d); }
    std::sort(names.begin(), names.end());
    for (auto &n : names) { Bytes b; if (!read_file(dir + "/" + n, b)) continue; std::vector<u32> t; decode_utf8(b, t); if (t.empty()) continue; g_pool.files.push_back(t); g_pool.file_names.push_back(n); }
    static const struct { const char *font, *text; } fixed[] = {
        {"Padauk", "1015 102F 100F 1039 100F 1031 1038"}, {"Padauk", "1000 103C 102D 102F"}, {"Padauk", "101e 1004 103a 1039 1001 103b 102d 102f 1004 103a 1038"},
        {"Padauk", "1005 1000 1039 1000 1030"}, {"Padauk", "1000 103c 1031 102c 1004 1037 103a"}, {"Padauk", "1000 102D 1005 1039 1006 102C"},
        {"Padauk", "1017 1014 103c 103d 102f"}, {"Padauk", "1004 103A 1039 1005"}, {"Padauk", "1004 103A 1039"}, {"Padauk", "1004 103D 1000 103A"},
        {"Padauk", "100B 1039 100C 1031 102C"}, {"Padauk", "0048 0065 006C 006C 006F 0020 004D 0075 006D"},
        {"Scheherazadegr", "0628 0628 064E 0644 064E 0654 0627 064E"}, {"Scheherazadegr", "0627 0644 0625 0639 0644 0627 0646"}, {"Scheherazadegr", "0627 0031 0032 002D 0034 0035 0627"},
        {"Scheherazadegr", "0627 0653 06AF"}, {"Scheherazadegr_noglyfs", "0627 0653 06AF"},
        {"charis_r_gr", "0069 02E6 02E8 02E5"}, {"charis_r_gr", "1D510 0041 1D513"}, {"charis_r_gr", "0054 0069 1ec3 0075"}, {"charis_r_gr", "006b 0361 070"},
        {"charis_r_gr", "0020 006C 0325 0065"}, {"charis_r_gr", "0048 0065 006C 006C 006F 0020 004D 0075 006D"}, {"charis_fast", "0049 0065 006C 006C 006F"},
        {"MagyarLinLibertineG", "0031 0035"}, {"MagyarLinLibertineG", "0031 0030"}, {"MagyarLinLibertineG", "0066 0069 0066 0074 0079 002d 0066 0069 0076 0065"},
        {"grtest1gr", "0062 0061 0061 0061 0061 0061 0061 0062 0061"}, {"general", "0E01 0062"}, {"PigLatinBenchmark_v3", "0068 0065 006C 006C 006F"},
        {"underflow", "0062 0061 0061 0061 0061 0061 0061 0062"}};
    for (auto &fi : g_corpus.fonts) {
        FontInfo in; in.name = fi.name;
        auto cm = fi.tables.find(mktag("cmap")); if (cm != fi.tables.end()) cmap_cps(cm->second, in.cps);
        in.loadable = fi.tables.count(mktag("Silf")) != 0;
        {   // pseudo-glyph map: characters the font handles although the cmap does not map them
            auto sf = fi.tables.find(mktag("Silf"));
            if (sf != fi.tables.end()) { std::vector<Range> rg; silf_ranges(sf->second, rg); for (auto &g : rg) if (!strcmp(g.what, "silf-pseudo") && g.lo + 8 <= sf->second.size()) { unsigned np = be16(&sf->second[g.lo]); for (unsigned k = 0; k < np && g.lo + 8 + 6 * size_t(k) + 6 <= sf->second.size(); ++k) { u32 uid = be32(&sf->second[g.lo + 8 + 6 * k]); if (uid && uid < 0x110000 && !(uid >= 0xD800 && uid <= 0xDFFF)) { in.cps.push_back(uid); in.pseudo.push_back(uid); } } } }
        }
        in.has_just = font_has_just(fi);
        in.rtl = fi.name.find("Scheherazade") == 0 || fi.name.find("Awami") == 0;
        in.big = fi.name.find("Awami") == 0;
        std::set<u32> have(in.cps.begin(), in.cps.end());
        for (size_t t = 0; t < g_pool.files.size(); ++t) {
            size_t hit = 0, tot = 0; for (size_t k = 0; k < g_pool.files[t].size(); k += 7) { u32 c = g_pool.files[t][k]; if (c == ' ') continue; ++tot; if (have.count(c)) ++hit; }
            if (tot && hit * 10 >= tot * 7) in.texts.push_back(int(t));
        }
        for (auto &fx : fixed) if (fi.name == fx.font) in.fixed.push_back(hexs(fx.text));
        g_pool.info[fi.name] = in;
        if (in.loadable) g_pool.font_names.push_back(fi.name);
    }
}

std::string gen_font(Rng &r, bool allow_big) {
    for (int tries = 0; tries < 20; ++tries) {
        const std::string &n = r.pick(g_pool.font_names);
        const FontInfo &in = g_pool.info[n];
        if (in.big && (!allow_big || !r.chance(1, 3))) continue;      // Awami fonts are ~10x costlier: sampled less
        return n;
    }
    return "Padauk";
}

std::vector<u32> sample_cps(Rng &r, const std::string &font, size_t n) {
    const FontInfo &in = g_pool.info[font];
    std::vector<u32> v;
    static const u32 edges[] = {0, 0x20, 0x7F, 0xFF, 0x100, 0x1FF, 0x200, 0xFFFE, 0xFFFF, 0x10000, 0x10001, 0x1D510, 0x10FFFF, 0x110000, 0xD800, 0xDFFF, 0xE000, 0xFFFFFFFF, 0x7FFFFFFF};
    for (size_t i = 0; i < n; ++i) {
        u32 k = r.below(10);
        if (k == 0 && !in.pseudo.empty()) v.push_back(r.pick(in.pseudo));
        else if (k < 5 && !in.cps.empty()) { u32 c = r.pick(in.cps); u32 j = r.below(4); v.push_back(j == 0 ? c - 1 : j == 1 ? c + 1 : c); }
        else if (k < 7) v.push_back(edges[r.below(sizeof edges / sizeof edges[0])]);
        else if (k < 9) v.push_back((r.below(0x1100) << 8) + (r.chance(1, 2) ? 0xFF : 0) + r.below(2));
        else v.push_back(u32(r.next()) & 0x1FFFFF);
    }
    return v;
}

std::vector<u32> gen_text(Rng &r, const std::string &font, size_t maxlen, bool adversarial) {
    const FontInfo &in = g_pool.info[font];
    std::vector<u32> t;
    if (maxlen == 0 || r.chance(1, 50)) return t;
    size_t len = 1 + size_t(r.below(u32(maxlen)));
    if (r.chance(1, 2)) len = 1 + len / 4;           // bias to short texts
    u32 k = r.below(100);
    if (k < 40 && !in.texts.empty()) {
        const std::vector<u32> &f = g_pool.files[size_t(r.pick(in.texts))];
        size_t start = r.below(u32(f.size()));
        while (start > 0 && f[start - 1] != ' ' && r.chance(3, 4)) --start;
        for (size_t i = start; i < f.size() && t.size() < len; ++i) t.push_back(f[i]);
    } else if (k < 75 && !in.cps.empty()) {
        size_t base = r.below(u32(in.cps.size()));
        while (t.size() < len) {
            if (r.chance(1, 8)) base = r.below(u32(in.cps.size()));
            if (r.chance(1, 10)) { t.push_back(' '); continue; }
            size_t j = base + r.below(48); if (j >= in.cps.size()) j = in.cps.size() - 1;
            t.push_back(in.cps[j]);
        }
    } else if (k < 85 && !in.fixed.empty()) {
        while (t.size() < len) { const std::vector<u32> &f = r.pick(in.fixed); t.insert(t.end(), f.begin(), f.end()); if (r.chance(1, 2)) t.push_back(' '); if (r.chance(1, 3)) break; }
    } else if (!in.cps.empty()) {
        // runs: one or two characters repeated (insertion / loop-limit stress)
        u32 a = r.pick(in.cps), b = r.pick(in.cps);
        while (t.size() < len) { t.push_back(a); if (r.chance(1, 3)) t.push_back(b); }
    } else { while (t.size() < len) t.push_back(0x61 + r.below(26)); }
    if (adversarial && r.chance(1, 4) && !t.empty()) {
        size_t n = 1 + r.below(3);
        static const u32 odd[] = {0x1D510, 0x10FFFF, 0x1F600, 0xE000, 0xFFFF, 0xFFFE, 0x200B, 0x200D, 0x202E, 0x0301, 0x20, 0x7F, 0x80, 0xAD, 0x10000, 0xFDD0};
        for (size_t i = 0; i < n; ++i) {
            size_t pos = r.below(u32(t.size() + 1));
            u32 it = r.chance(1, 2) ? odd[r.below(sizeof odd / sizeof odd[0])] : (ILL | r.below(0x10000));
            t.insert(t.begin() + long(pos), it);
        }
    }
    if (!in.pseudo.empty() && (g_pseudo_bias ? r.chance(4, 5) : r.chance(1, 5))) { unsigned n = 1 + r.below(3); for (unsigned q = 0; q < n; ++q) t.insert(t.begin() + long(r.below(u32(t.size() + 1))), r.pick(in.pseudo)); }
    if (adversarial && r.chance(1, 8)) t.push_back(ILL | ILL_TAIL | r.below(0x400000));
    if (adversarial && t.size() >= 2 && r.chance(1, 40)) t.insert(t.begin() + long(r.below(u32(t.size()))), NUL_ITEM);   // an embedded U+0000, never as the last item
    for (auto &c : t) c = sanitize_item(c);
    return t;
}

// ------------------------------------------------------------------------------------------ faults
static const char *pick_tag(Rng &r, const FontImage &fi) {
    static const struct { const char *t; unsigned w; } W[] = {{"Silf", 40}, {"Glat", 12}, {"Gloc", 10}, {"cmap", 8}, {"Feat", 6}, {"Sill", 4}, {"name", 5}, {"head", 3}, {"hhea", 2}, {"hmtx", 3}, {"maxp", 3}, {"loca", 2}, {"glyf", 2}};
    for (int tries = 0; tries < 8; ++tries) {
        unsigned tot = 0; for (auto &w : W) tot += w.w;
        unsigned x = r.below(tot);
        for (auto &w : W) { if (x < w.w) { if (fi.tables.count(mktag(w.t))) return w.t; break; } x -= w.w; }
    }
    return "Silf";
}

static size_t aimed_offset(Rng &r, u32 tag, const Bytes &t) {
    if (t.empty()) return 0;
    if (r.chance(7, 10)) {
        std::vector<Range> rg; table_ranges(tag, t, rg);
        if (!rg.empty()) { const Range &g = rg[r.below(u32(rg.size()))]; if (g.hi > g.lo) return g.lo + r.below(u32(g.hi - g.lo)); }
    }
    return r.below(u32(t.size()));
}

Fault gen_store_fault(Rng &r, const FontImage &fi) {
    Fault f; f.tag = pick_tag(r, fi);
    u32 tag = mktag(f.tag.c_str());
    const Bytes &t = fi.tables.find(tag)->second;
    u32 k = r.below(100);
    f.nth = r.chance(4, 5) ? 0 : (r.chance(1, 2) ? -1 : 1);
    if ((f.tag == "Silf" || f.tag == "Glat") && t.size() >= 16 && (be32(&t[4]) >> 27) == 1 && be32(&t[0]) >= (f.tag == "Silf" ? 0x00050000u : 0x00030000u) && r.chance(1, 3)) {
        // compressed table: rot aimed at the announced decompressed size (27 bits) and the scheme bits
        u32 real = be32(&t[4]) & 0x07FFFFFF; static const u32 tiny[] = {0, 1, 2, 3, 4, 5, 7, 8, 12, 13};
        u32 c = r.below(6); u32 sz = c == 0 ? tiny[r.below(10)] : c == 1 ? real - 1 - r.below(8) : c == 2 ? real + 1 + r.below(64) : c == 3 ? 0x07FFFFFF : c == 4 ? real / 2 : tiny[r.below(4)];
        u32 hdr = ((r.chance(1, 8) ? r.below(32) : 1u) << 27) | (sz & 0x07FFFFFF);
        f.kind = "SETBYTES"; f.a = {4, i64(hdr >> 24), 5, i64((hdr >> 16) & 0xFF), 6, i64((hdr >> 8) & 0xFF), 7, i64(hdr & 0xFF)};
        return f;
    }
    if (f.tag == "name" && t.size() >= 18 && r.chance(1, 8)) {
        // the string storage starts at or behind the end of the table (no string can be read; everything else is in order)
        static const unsigned off[] = {0, 1, 2, 100, 0xFFFF}; unsigned v = r.chance(1, 5) ? 0xFFFF : unsigned(t.size()) + off[r.below(4)]; if (v > 0xFFFF) v = 0xFFFF;
        f.kind = "SETBYTES"; f.a = {4, i64(v >> 8), 5, i64(v & 0xFF)}; f.nth = -1; return f;
    }
    if (f.tag == "name" && t.size() >= 18 && r.chance(1, 5)) {
        // a label whose string is empty: the record is there, its length is 0 (the query succeeds with an empty string, or fails - and keeps nothing)
        unsigned cnt = be16(&t[2]); std::vector<size_t> cand;
        for (unsigned i = 0; i < cnt && 6 + 12 * size_t(i) + 12 <= t.size(); ++i) if (be16(&t[6 + 12 * i + 6]) >= 256) cand.push_back(6 + 12 * size_t(i) + 8);
        if (!cand.empty()) { f.kind = "SETBYTES"; bool all = r.chance(1, 2); size_t one = cand[r.below(u32(cand.size()))]; for (size_t pos : cand) if (all || pos == one) { f.a.push_back(i64(pos)); f.a.push_back(0); f.a.push_back(i64(pos + 1)); f.a.push_back(0); } f.nth = -1; return f; }
    }
    if (f.tag == "name" && t.size() >= 18 && r.chance(1, 3)) {
        // one label's last UTF-16 unit becomes a lead surrogate: the string no longer validates, the label query must fail cleanly
        unsigned cnt = be16(&t[2]); size_t so = be16(&t[4]); std::vector<size_t> cand;
        for (unsigned i = 0; i < cnt && 6 + 12 * size_t(i) + 12 <= t.size(); ++i) { const u8 *e = &t[6 + 12 * i]; if (be16(e) == 3 && be16(e + 8) >= 2 && so + be16(e + 10) + be16(e + 8) <= t.size()) cand.push_back(so + be16(e + 10) + be16(e + 8) - 2); }
        if (!cand.empty()) { size_t pos = cand[r.below(u32(cand.size()))]; f.kind = "SETBYTES"; f.a = {i64(pos), 0xD8, i64(pos + 1), i64(r.below(256))}; f.nth = -1; return f; }
    }
    if ((f.tag == "head" || f.tag == "hhea" || f.tag == "maxp") && r.chance(1, 2)) {
        // the few fields of the metric tables the engine really reads: units per em, loca format, number of h-metrics, glyph count
        size_t off = f.tag == "head" ? (r.chance(2, 3) ? 18 : 50) : f.tag == "hhea" ? 34 : 4;
        if (off + 2 <= t.size()) {
            unsigned old = be16(&t[off]); static const unsigned odd[] = {0, 1, 2, 15, 0x4001, 0x7FFF, 0x8000, 0xFFFF};
            unsigned v = r.chance(1, 2) ? odd[r.below(8)] : (r.chance(1, 2) ? old + 1 : old - 1) & 0xFFFF;
            f.kind = "SETBYTES"; f.a = {i64(off), i64(v >> 8), i64(off + 1), i64(v & 0xFF)}; f.nth = r.chance(1, 2) ? -1 : 0;
            return f;
        }
    }
    if (f.tag == "cmap" && t.size() >= 12 && r.chance(1, 4)) {
        // one kind of subtable made unusable (format field overwritten) while the others stay valid: fonts that are left with
        // only a format-12 or only a format-4 mapping
        unsigned n = be16(&t[2]); unsigned want = r.chance(2, 3) ? 4 : 12; static const int bad[] = {0, 2, 6, 13, 0xFF};
        f.kind = "SETBYTES"; int v = bad[r.below(5)];
        for (unsigned i = 0; i < n && 4 + 8 * size_t(i) + 8 <= t.size(); ++i) { size_t so = be32(&t[4 + 8 * i + 4]); if (so + 2 <= t.size() && be16(&t[so]) == want) { f.a.push_back(i64(so)); f.a.push_back(v >> 8); f.a.push_back(i64(so + 1)); f.a.push_back(v & 0xFF); } }
        if (!f.a.empty()) return f;
        f.kind.clear();
    }
    if (k < 55) {
        f.kind = r.chance(3, 4) ? "BITROT" : "SETBYTES";
        unsigned n = 1 + (r.chance(1, 3) ? r.below(3) : 0);
        for (unsigned i = 0; i < n; ++i) {
            f.a.push_back(i64(aimed_offset(r, tag, t)));
            if (f.kind == "BITROT") f.a.push_back(r.chance(1, 2) ? i64(1u << r.below(8)) : i64(1 + r.below(255)));
            else { static const int vals[] = {0, 1, 0x7F, 0x80, 0xFF, 0xFE, 2, 0x40}; f.a.push_back(r.chance(2, 3) ? vals[r.below(8)] : int(r.below(256))); }
        }
    } else if (k < 67) {
        f.kind = "TRUNCATE";
        std::vector<Range> rg; table_ranges(tag, t, rg);
        size_t cut = t.empty() ? 0 : r.below(u32(t.size()));
        if (!rg.empty() && r.chance(2, 3)) { const Range &g = rg[r.below(u32(rg.size()))]; cut = (r.chance(1, 2) ? g.hi : g.lo) + r.below(3); if (cut) cut -= 1; }
        if (r.chance(1, 3)) cut = r.below(24);     // tiny tables: the size tests of CheckTable and of each table's own reader
        f.a.push_back(i64(cut));
    } else if (k < 76) {
        f.kind = "TORN"; f.a.push_back(i64(aimed_offset(r, tag, t) & ~size_t(15))); f.a.push_back(16 << r.below(6)); f.a.push_back(r.below(3) ? 0 : 1 + r.below(12));
    } else if (k < 86) f.kind = "MISSING";
    else if (k < 89) f.kind = "NULL_WITH_LEN";
    else if (k < 93) f.kind = "ZERO_LEN";
    else if (k < 95) f.kind = "LEN_UNTOUCHED";
    else { f.kind = "REFETCH_DIFFERS"; f.nth = -2; if (r.chance(1, 2)) f.tag = "name"; u32 tg = mktag(f.tag.c_str()); auto it = fi.tables.find(tg); size_t sz = it == fi.tables.end() ? 1 : it->second.size(); unsigned n = 1 + r.below(4); for (unsigned i = 0; i < n; ++i) { f.a.push_back(i64(r.below(u32(sz ? sz : 1)))); f.a.push_back(1 + r.below(255)); } }
    return f;
}

Fault gen_file_fault(Rng &r, const FontImage &fi) {
    Fault f; u32 k = r.below(100);
    if (k < 8) { f.kind = "FOPEN_FAIL"; f.tag = "fopen"; f.nth = 0; }
    else if (k < 28) { f.kind = "FSEEK_FAIL"; f.tag = "fseek"; f.nth = r.below(24); }
    else if (k < 36) { f.kind = "FTELL_MINUS1"; f.tag = "ftell"; f.nth = 0; }
    else if (k < 60) { f.kind = "FREAD_SHORT"; f.tag = "fread"; f.nth = r.below(20); f.a.push_back(r.chance(1, 3) ? i64(r.below(16)) : i64(r.next() & 0xFFFFF)); }
    else if (k < 72) { f.kind = "FREAD_ZERO"; f.tag = "fread"; f.nth = r.below(20); }
    else if (k < 84) { f.kind = "FILE_TRUNCATED"; f.tag = "file"; f.nth = 0; size_t n = fi.file.size(); f.a.push_back(r.chance(1, 3) ? i64(r.below(12 + 16 * 20)) : i64(r.below(u32(n ? n : 1)))); }
    else { f.kind = "DIR_BITROT"; f.tag = "file"; f.nth = 0; unsigned nt = fi.file.size() >= 6 ? be16(&fi.file[4]) : 1; unsigned n = 1 + r.below(2);
        for (unsigned i = 0; i < n; ++i) { size_t off = r.chance(1, 5) ? r.below(12) : 12 + 16 * size_t(r.below(nt ? nt : 1)) + (r.chance(4, 5) ? 8 + r.below(8) : r.below(16)); f.a.push_back(i64(off)); f.a.push_back(r.chance(1, 2) ? i64(1u << r.below(8)) : i64(1 + r.below(255))); } }
    return f;
}


// ------------------------------------------------------------------------------------------ structured Silf rot
// CODEROT: well-formed-length bytecode mutations (opcode swaps of equal size, an instruction replaced by
// DELETE/INSERT/NEXT + NOPs, operand tweaks): rule programs no compiler would emit, most still accepted by the loader.
Fault gen_code_fault(Rng &r, const FontImage &fi) {
    Fault f; f.kind = "CODEROT"; f.tag = "Silf"; f.nth = -1;
    auto it = fi.tables.find(mktag("Silf")); if (it == fi.tables.end()) return f;
    const Bytes &t = it->second;
    std::vector<PassInfo> ps; silf_passes(t, ps);
    if (ps.empty()) return f;
    static const std::vector<unsigned> BY[6] = {
        {0, 6, 7, 8, 9, 10, 11, 12, 13, 14, 15, 16, 17, 18, 19, 20, 21, 22, 23, 24, 25, 27, 31, 32, 48, 49, 50, 55, 62, 63, 64},
        {1, 2, 28, 30, 35, 36, 37, 38, 54}, {3, 4, 39, 40, 41, 43, 44, 51, 52, 53, 59, 66}, {29, 42, 45, 46, 60, 61}, {5, 65}, {56}};
    static const unsigned ZERO_ACT[] = {32, 32, 31, 31, 25, 27, 0, 9, 48};     // DELETE, INSERT, NEXT, COPY_NEXT, NOP, DIV, POP_RET
    unsigned nm = 1 + (r.chance(1, 3) ? r.below(3) : 0);
    for (unsigned m = 0; m < nm; ++m) {
        const PassInfo &p = ps[r.below(u32(ps.size()))];
        bool action = r.chance(4, 5);
        std::vector<Insn> ins; decode_code(t, action ? p.ac_lo : p.rc_lo, action ? p.ac_hi : p.rc_hi, ins);
        if (ins.empty()) continue;
        const Insn &in = ins[r.below(u32(ins.size()))];
        u32 k = r.below(10);
        if (k < 4 && in.plen >= 0 && in.plen <= 5) {                    // equal-size opcode swap
            const std::vector<unsigned> &c = BY[in.plen]; f.a.push_back(i64(in.off)); f.a.push_back(i64(c[r.below(u32(c.size()))]));
        } else if (k < 7 && in.plen >= 1) {                             // instruction -> zero-operand opcode + NOPs
            f.a.push_back(i64(in.off)); f.a.push_back(i64(ZERO_ACT[r.below(sizeof ZERO_ACT / sizeof ZERO_ACT[0])]));
            for (int q = 1; q <= in.plen; ++q) { f.a.push_back(i64(in.off + size_t(q))); f.a.push_back(0); }
        } else if (in.plen >= 1) {                                      // operand tweak
            size_t q = 1 + r.below(u32(in.plen)); unsigned old = t[in.off + q]; unsigned nv;
            bool attr_op = (in.op >= 35 && in.op <= 39) || (in.op >= 51 && in.op <= 53);
            if (attr_op && q == 1) { static const unsigned attrs[] = {2, 2, 2, 0, 1, 3, 4, 8, 9, 13, 14, 17, 20, 21, 22, 55, 29, 24, 56, 57}; nv = attrs[r.below(sizeof attrs / sizeof attrs[0])]; }
            else { u32 c = r.below(6); nv = c == 0 ? old + 1 : c == 1 ? old - 1 : c == 2 ? 0 : c == 3 ? 255 : c == 4 ? 1 + r.below(4) : r.below(256); }
            f.a.push_back(i64(in.off + q)); f.a.push_back(i64(nv & 0xFF));
        } else { f.a.push_back(i64(in.off)); f.a.push_back(i64(ZERO_ACT[r.below(sizeof ZERO_ACT / sizeof ZERO_ACT[0])])); }
    }
    return f;
}

// PSEUDOROT: one pseudo-map record's Unicode value overwritten with another record's (duplicate keys: lookup order matters)
Fault gen_pseudo_fault(Rng &r, const FontImage &fi) {
    Fault f; f.kind = "SETBYTES"; f.tag = "Silf"; f.nth = -1;
    auto it = fi.tables.find(mktag("Silf")); if (it == fi.tables.end()) return f;
    const Bytes &t = it->second; std::vector<Range> rg; silf_ranges(t, rg);
    for (auto &g : rg) if (!strcmp(g.what, "silf-pseudo") && g.lo + 8 <= t.size()) {
        unsigned np = be16(&t[g.lo]); if (np < 2 || g.lo + 8 + 6 * size_t(np) > t.size()) break;
        unsigned i = r.below(np), j = r.below(np); if (i == j) j = (i + 1) % np;
        size_t src = g.lo + 8 + 6 * size_t(i), dst = g.lo + 8 + 6 * size_t(j);
        for (int q = 0; q < 4; ++q) { f.a.push_back(i64(dst + size_t(q))); f.a.push_back(t[src + size_t(q)]); }
        g_pseudo_focus = be32(&t[src]);
        break;
    }
    return f;
}

// GIDROT: a format-4 cmap segment (the one holding a common character of the font) re-based so that its characters map
// to glyph ids at and above `target` (e.g. beyond numGlyphs): accepted fonts whose slots carry out-of-range gids
Fault gen_gid_fault(Rng &r, const FontImage &fi, const std::vector<u32> &cps) {
    Fault f; f.kind = "SETBYTES"; f.tag = "cmap"; f.nth = -1;
    auto it = fi.tables.find(mktag("cmap")); if (it == fi.tables.end() || cps.empty()) return f;
    const Bytes &t = it->second; if (t.size() < 4) return f;
    unsigned n = be16(&t[2]);
    static const u32 targets[] = {0xFFF0, 0xFFFF, 0x8000, 0x7FFF}; u32 target = r.chance(1, 2) ? targets[r.below(4)] : 0;
    if (!target) { auto mx = fi.tables.find(mktag("maxp")); u32 ng = mx != fi.tables.end() && mx->second.size() >= 6 ? be16(&mx->second[4]) : 100; target = ng + r.below(3) - 1; }
    std::set<size_t> done;
    for (int tries = 0; tries < 8 && f.a.empty(); ++tries) {
        u32 c = r.pick(cps); if (c > 0xFFFF) continue;
        for (unsigned i = 0; i < n && 4 + 8 * size_t(i) + 8 <= t.size(); ++i) {       // every format-4 subtable that maps c (the (0,3) and (3,1) ones are often distinct copies)
            size_t so = be32(&t[4 + 8 * i + 4]); if (so + 16 > t.size() || be16(&t[so]) != 4 || done.count(so)) continue;
            done.insert(so);
            size_t sx2 = be16(&t[so + 6]), ends = so + 14, starts = ends + sx2 + 2, idd = starts + sx2, iro = idd + sx2;
            if (iro + sx2 > t.size()) continue;
            for (size_t k = 0; k + 1 < sx2; k += 2) if (be16(&t[starts + k]) <= c && c <= be16(&t[ends + k])) {
                unsigned ro = be16(&t[iro + k]);
                if (ro) {      // glyphIdArray entry of this one character
                    size_t pos = iro + k + ro + 2 * size_t(c - be16(&t[starts + k]));
                    if (pos + 2 <= t.size()) { f.a.push_back(i64(pos)); f.a.push_back(i64((target >> 8) & 0xFF)); f.a.push_back(i64(pos + 1)); f.a.push_back(i64(target & 0xFF)); }
                } else {       // re-base the whole segment
                    u32 delta = (target - be16(&t[starts + k])) & 0xFFFF;
                    f.a.push_back(i64(idd + k)); f.a.push_back(i64(delta >> 8)); f.a.push_back(i64(idd + k + 1)); f.a.push_back(i64(delta & 0xFF));
                }
                break;
            }
        }
        done.clear();
    }
    return f;
}

// STATEROT: one FSM transition redirected (to its own state, to an earlier or to a random state): state tables with cycles,
// which no compiler emits and the loader accepts as long as the target exists
Fault gen_state_fault(Rng &r, const FontImage &fi) {
    Fault f; f.kind = "SETBYTES"; f.tag = "Silf"; f.nth = -1;
    auto it = fi.tables.find(mktag("Silf")); if (it == fi.tables.end()) return f;
    std::vector<PassInfo> ps; silf_passes(it->second, ps);
    std::vector<const PassInfo *> ok; for (auto &p : ps) if (p.st_hi > p.st_lo) ok.push_back(&p);
    if (ok.empty()) return f;
    unsigned n = 1 + r.below(3);
    if (r.chance(1, 3)) {   // column rot: one glyph range of a pass sent to another FSM column - the last one, the one behind it, ...
        const Bytes &t = it->second; const PassInfo &p = *ok[r.below(u32(ok.size()))];
        unsigned numCols = be16(&t[p.head + 30]), numRange = be16(&t[p.head + 32]);
        if (numRange && p.head + 40 + 6 * size_t(numRange) <= t.size()) {
            size_t at = p.head + 40 + 6 * size_t(r.below(numRange)) + 4;
            u32 c = r.below(6); unsigned col = c < 2 ? numCols : c == 2 ? numCols - 1 : c == 3 ? numCols + 1 : c == 4 ? 0xFFFF : r.below(numCols ? numCols : 1);
            f.a = {i64(at), i64((col >> 8) & 0xFF), i64(at + 1), i64(col & 0xFF)};
            return f;
        }
    }
    for (unsigned k = 0; k < n; ++k) {
        const PassInfo &p = *ok[r.below(u32(ok.size()))];
        size_t cells = (p.st_hi - p.st_lo) / 2; size_t cell = r.below(u32(cells)); unsigned row = unsigned(cell / p.ncols);
        u32 c = r.below(4); unsigned tgt = c == 0 ? row : c == 1 ? (row ? r.below(row) : 0) : c == 2 ? r.below(p.nstates ? p.nstates : 1) : row + 1;
        f.a.push_back(i64(p.st_lo + 2 * cell)); f.a.push_back(i64((tgt >> 8) & 0xFF)); f.a.push_back(i64(p.st_lo + 2 * cell + 1)); f.a.push_back(i64(tgt & 0xFF));
    }
    return f;
}

// LOOPROT: pass header fields that bound the work: maxRuleLoop, flags, maxRuleContext/maxBackup
Fault gen_loop_fault(Rng &r, const FontImage &fi) {
    Fault f; f.kind = "LOOPROT"; f.tag = "Silf"; f.nth = -1;
    auto it = fi.tables.find(mktag("Silf")); if (it == fi.tables.end()) return f;
    std::vector<PassInfo> ps; silf_passes(it->second, ps);
    if (ps.empty()) return f;
    static const int vals[] = {0, 0, 1, 2, 255, 128};
    bool all = r.chance(1, 2); int v = vals[r.below(6)]; unsigned field = r.chance(3, 4) ? 1 : (r.chance(1, 2) ? 2 : 3);
    size_t one = r.below(u32(ps.size()));
    for (size_t i = 0; i < ps.size(); ++i) if (all || i == one) { f.a.push_back(i64(ps[i].head + field)); f.a.push_back(v); }
    return f;
}

void gen_faults(Rng &r, const FontImage &fi, int source, std::vector<Fault> &out, int maxn) {
    int n = 1; while (n < maxn && r.chance(1, 3)) ++n;
    if (r.chance(1, 20)) {
        // two cooperating corruptions of one table: the Silf directory announces one sub-table more than there is (the extra
        // offset is whatever bytes follow) and the table has lost its tail, so a sub-table's own offsets point behind the data
        auto sf = fi.tables.find(mktag("Silf"));
        if (sf != fi.tables.end() && sf->second.size() > 64) {
            const Bytes &o = sf->second; const size_t pos = be32(&o[0]) >= 0x00030000 ? 8 : 4;
            Fault a; a.kind = "SETBYTES"; a.tag = "Silf"; a.nth = -1; a.a = {i64(pos), 0, i64(pos + 1), i64(be16(&o[pos]) + 1 + r.below(2))};
            Fault b; b.kind = "TRUNCATE"; b.tag = "Silf"; b.nth = -1; b.a = {i64(r.chance(2, 3) ? o.size() - 1 - r.below(96) : 40 + r.below(u32(o.size() - 40)))};
            out.push_back(a); out.push_back(b);
            return;
        }
    }
    for (int i = 0; i < n; ++i) {
        Fault f;
        if (source == 1 && r.chance(1, 3)) f = gen_file_fault(r, fi);
        else if (r.chance(1, 8)) f = gen_code_fault(r, fi);
        else if (r.chance(1, 16)) f = gen_loop_fault(r, fi);
        else f = gen_store_fault(r, fi);
        if ((f.kind == "CODEROT" || f.kind == "LOOPROT") && f.a.empty()) f = gen_store_fault(r, fi);
        out.push_back(f);
    }
}

} // namespace sim
