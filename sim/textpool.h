// Text pools per corpus font and fault generators shared by the mode generators.
#pragma once
#include "world.h"
#include "text.h"

namespace sim {

struct FontInfo {
    std::string name;
    std::vector<u32> cps;                  // code points mapped by the font's cmap (capped) plus the pseudo-glyph characters
    std::vector<u32> pseudo;               // characters of the Silf pseudo-glyph map
    std::vector<int> texts;                // indices of text files the font covers well
    std::vector<std::vector<u32>> fixed;   // fonttest strings
    bool has_just = false;                 // justification passes / line-end contextuals / justify attrs
    bool rtl = false;
    bool loadable = true;
    bool big = false;                      // expensive to load/shape (Awami): sampled less often
};
struct TextPool {
    std::vector<std::vector<u32>> files;   // decoded text files
    std::vector<std::string> file_names;
    std::map<std::string, FontInfo> info;
    std::vector<std::string> font_names;   // loadable corpus fonts (order = corpus order)
};
extern TextPool g_pool;
void pool_build();
bool font_has_just(const FontImage &fi);
bool font_has_just_passes(const FontImage &fi);

std::vector<u32> gen_text(Rng &r, const std::string &font, size_t maxlen, bool adversarial = true);
std::string gen_font(Rng &r, bool allow_big = true);
// storage faults
Fault gen_store_fault(Rng &r, const FontImage &fi);
Fault gen_file_fault(Rng &r, const FontImage &fi);
Fault gen_code_fault(Rng &r, const FontImage &fi);
Fault gen_loop_fault(Rng &r, const FontImage &fi);
Fault gen_pseudo_fault(Rng &r, const FontImage &fi);
Fault gen_state_fault(Rng &r, const FontImage &fi);
Fault gen_gid_fault(Rng &r, const FontImage &fi, const std::vector<u32> &cps);
extern int g_pseudo_bias;
extern u32 g_pseudo_focus;
void gen_faults(Rng &r, const FontImage &fi, int source, std::vector<Fault> &out, int maxn = 4);
std::vector<u32> sample_cps(Rng &r, const std::string &font, size_t n);

} // namespace sim
