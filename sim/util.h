// grsim utilities: PRNG, hashing, minimal JSON (ints, strings, arrays, objects only).
#pragma once
#include <cstdint>
#include <cstdio>
#include <cstdlib>
#include <cstring>
#include <string>
#include <vector>
#include <map>
#include <memory>

typedef uint8_t u8; typedef uint16_t u16; typedef uint32_t u32; typedef uint64_t u64; typedef int64_t i64;
typedef std::vector<u8> Bytes;

static inline u64 splitmix(u64 &s) { u64 z = (s += 0x9E3779B97F4A7C15ull); z = (z ^ (z >> 30)) * 0xBF58476D1CE4E5B9ull; z = (z ^ (z >> 27)) * 0x94D049BB133111EBull; return z ^ (z >> 31); }
static inline u64 mix64(u64 a, u64 b) { u64 s = a ^ (b * 0xD6E8FEB86659FD93ull); splitmix(s); return splitmix(s); }

struct Rng {
    u64 s;
    explicit Rng(u64 seed = 0) : s(seed) {}
    u64 next() { return splitmix(s); }
    u32 below(u32 n) { return n ? u32(next() % n) : 0; }           // [0,n)
    i64 range(i64 lo, i64 hi) { return lo + i64(next() % u64(hi - lo + 1)); } // [lo,hi]
    bool chance(u32 num, u32 den) { return below(den) < num; }
    template <class T> const T &pick(const std::vector<T> &v) { return v[below(u32(v.size()))]; }
    Rng fork(u64 salt) { return Rng(mix64(next(), salt)); }
};

struct Hasher {
    u64 h = 0xcbf29ce484222325ull;
    void bytes(const void *p, size_t n) { const u8 *b = (const u8 *)p; for (size_t i = 0; i < n; ++i) { h ^= b[i]; h *= 0x100000001b3ull; } }
    void u(u64 x) { bytes(&x, 8); }
    void s(const std::string &x) { u(x.size()); bytes(x.data(), x.size()); }
};

static inline u32 be32(const u8 *p) { return (u32(p[0]) << 24) | (u32(p[1]) << 16) | (u32(p[2]) << 8) | p[3]; }
static inline u16 be16(const u8 *p) { return u16((p[0] << 8) | p[1]); }
static inline void put32(Bytes &b, u32 v) { b.push_back(u8(v >> 24)); b.push_back(u8(v >> 16)); b.push_back(u8(v >> 8)); b.push_back(u8(v)); }
static inline void put16(Bytes &b, u32 v) { b.push_back(u8(v >> 8)); b.push_back(u8(v)); }
static inline void set32(Bytes &b, size_t o, u32 v) { b[o] = u8(v >> 24); b[o + 1] = u8(v >> 16); b[o + 2] = u8(v >> 8); b[o + 3] = u8(v); }
static inline void set16(Bytes &b, size_t o, u32 v) { b[o] = u8(v >> 8); b[o + 1] = u8(v); }
static inline u32 mktag(const char *s) { return (u32(u8(s[0])) << 24) | (u32(u8(s[1])) << 16) | (u32(u8(s[2])) << 8) | u8(s[3]); }
static inline std::string tagstr(u32 t) { std::string s(4, ' '); s[0] = char(t >> 24); s[1] = char(t >> 16); s[2] = char(t >> 8); s[3] = char(t); return s; }

// ---------------------------------------------------------------- JSON
struct J;
typedef std::shared_ptr<J> JP;
struct J {
    enum K { NUL, INT, STR, ARR, OBJ } k = NUL;
    i64 i = 0;
    std::string s;
    std::vector<JP> a;
    std::vector<std::pair<std::string, JP>> o;
    static JP mkint(i64 v) { JP j(new J); j->k = INT; j->i = v; return j; }
    static JP mkstr(const std::string &v) { JP j(new J); j->k = STR; j->s = v; return j; }
    static JP mkarr() { JP j(new J); j->k = ARR; return j; }
    static JP mkobj() { JP j(new J); j->k = OBJ; return j; }
    void set(const std::string &key, JP v) { o.push_back(std::make_pair(key, v)); }
    JP get(const std::string &key) const { for (auto &p : o) if (p.first == key) return p.second; return JP(); }
    i64 geti(const std::string &key, i64 d = 0) const { JP v = get(key); return v && v->k == INT ? v->i : d; }
    std::string gets(const std::string &key, const std::string &d = "") const { JP v = get(key); return v && v->k == STR ? v->s : d; }
};

static inline void json_esc(std::string &out, const std::string &s) {
    out += '"';
    for (unsigned char c : s) {
        if (c == '"' || c == '\\') { out += '\\'; out += char(c); }
        else if (c < 0x20 || c >= 0x7f) { char b[8]; snprintf(b, sizeof b, "\\u%04x", c); out += b; }
        else out += char(c);
    }
    out += '"';
}
static inline void json_write(std::string &out, const JP &j) {
    if (!j) { out += "null"; return; }
    switch (j->k) {
    case J::NUL: out += "null"; break;
    case J::INT: out += std::to_string(j->i); break;
    case J::STR: json_esc(out, j->s); break;
    case J::ARR: out += '['; for (size_t n = 0; n < j->a.size(); ++n) { if (n) out += ','; json_write(out, j->a[n]); } out += ']'; break;
    case J::OBJ: out += '{'; for (size_t n = 0; n < j->o.size(); ++n) { if (n) out += ','; json_esc(out, j->o[n].first); out += ':'; json_write(out, j->o[n].second); } out += '}'; break;
    }
}
struct JsonParser {
    const char *p, *e; bool ok = true;
    JsonParser(const std::string &s) : p(s.data()), e(s.data() + s.size()) {}
    void ws() { while (p < e && (*p == ' ' || *p == '\n' || *p == '\t' || *p == '\r')) ++p; }
    std::string str() {
        std::string r; if (p >= e || *p != '"') { ok = false; return r; } ++p;
        while (p < e && *p != '"') {
            if (*p == '\\' && p + 1 < e) {
                ++p;
                if (*p == 'u' && p + 4 < e) { unsigned v = 0; sscanf(p + 1, "%4x", &v); r += char(v); p += 5; }
                else if (*p == 'n') { r += '\n'; ++p; }
                else if (*p == 't') { r += '\t'; ++p; }
                else { r += *p; ++p; }
            } else r += *p++;
        }
        if (p < e) ++p; else ok = false;
        return r;
    }
    JP val() {
        ws(); if (p >= e) { ok = false; return JP(); }
        if (*p == '{') { ++p; JP j = J::mkobj(); ws(); if (p < e && *p == '}') { ++p; return j; }
            for (;;) { ws(); std::string k = str(); ws(); if (p >= e || *p != ':') { ok = false; return j; } ++p; JP v = val(); j->set(k, v); ws(); if (p < e && *p == ',') { ++p; continue; } if (p < e && *p == '}') { ++p; return j; } ok = false; return j; } }
        if (*p == '[') { ++p; JP j = J::mkarr(); ws(); if (p < e && *p == ']') { ++p; return j; }
            for (;;) { JP v = val(); j->a.push_back(v); ws(); if (p < e && *p == ',') { ++p; continue; } if (p < e && *p == ']') { ++p; return j; } ok = false; return j; } }
        if (*p == '"') return J::mkstr(str());
        if (!strncmp(p, "null", 4)) { p += 4; return JP(new J); }
        if (!strncmp(p, "true", 4)) { p += 4; return J::mkint(1); }
        if (!strncmp(p, "false", 5)) { p += 5; return J::mkint(0); }
        char *end = 0; i64 v = strtoll(p, &end, 10); if (end == p) { ok = false; return JP(); }
        if (end < e && (*end == '.' || *end == 'e' || *end == 'E')) { strtod(p, &end); } // floats truncated (never emitted by us)
        p = end; return J::mkint(v);
    }
};

static inline bool read_file(const std::string &path, Bytes &out) {
    FILE *f = fopen(path.c_str(), "rb"); if (!f) return false;
    fseek(f, 0, SEEK_END); long n = ftell(f); fseek(f, 0, SEEK_SET);
    out.resize(n > 0 ? size_t(n) : 0); size_t r = n > 0 ? fread(out.data(), 1, size_t(n), f) : 0; fclose(f); return r == out.size();
}
static inline std::string strf(const char *fmt, ...) __attribute__((format(printf, 1, 2)));
#include <cstdarg>
static inline std::string strf(const char *fmt, ...) { char buf[2048]; va_list ap; va_start(ap, fmt); vsnprintf(buf, sizeof buf, fmt, ap); va_end(ap); return buf; }
