#include "world.h"
#include <dirent.h>
#include <unistd.h>

#ifndef GRSIM_PLAIN
extern "C" int __sanitizer_install_malloc_and_free_hooks(void (*malloc_hook)(const volatile void *, size_t), void (*free_hook)(const volatile void *));
#endif

namespace sim {

RunState g_run;
extern int g_next_image;
std::map<std::string, u64> g_probe;
std::map<std::string, u64> g_maxstat;
volatile u64 g_steps = 0;
u64 g_deadline = ~0ull;
const char *g_api_name = "";
u64 g_api_index = 0;
int g_inlib = 0;
int g_incallback = 0;
int g_track = 0;
u64 g_budget_scale = 1;
bool g_budget_fatal = true;
u64 g_alloc_count = 0;
Corpus g_corpus;
std::string g_repo = "/repo";

// event horizon for the edge callback: min(deadline, next scheduler event)
volatile u64 g_next_event = ~0ull;
void (*g_sched_hook)(u32 guard) = 0;      // conc mode: called when g_steps reaches g_sched_at
u64 g_sched_at = ~0ull;
void (*g_fatal_hook)(const char *cls, const char *detail) = 0;

NOTSAN void recompute_horizon() { g_next_event = g_deadline < g_sched_at ? g_deadline : g_sched_at; }

void run_reset(bool tracing) {
    g_run = RunState(); g_run.tracing = tracing; g_next_image = 1;
    g_api_index = 0; g_inlib = 0; g_incallback = 0; g_track = 0; g_deadline = ~0ull; g_sched_at = ~0ull; recompute_horizon();
}

void violation(const std::string &cls, const std::string &detail) {
    g_run.all_viols.push_back(std::make_pair(cls, detail));
    if (g_run.viol_class.empty()) { g_run.viol_class = cls; g_run.viol_detail = detail; }
    if (g_run.tracing) g_run.trace.push_back("VIOLATION " + cls + " " + detail);
}

NOTSAN void event(const char *what, u64 a, u64 b, u64 c) {
    ++g_run.events;
    g_run.log.bytes(what, strlen(what)); g_run.log.u(a); g_run.log.u(b); g_run.log.u(c);
    if (g_run.tracing) g_run.trace.push_back(strf("@%llu %s %llx %llx %llx", (unsigned long long)g_steps, what, (unsigned long long)a, (unsigned long long)b, (unsigned long long)c));
}

NOTSAN static void budget_hit() {
    std::string d = strf("api=%s call#%llu steps=%llu", g_api_name, (unsigned long long)g_api_index, (unsigned long long)g_steps);
    if (g_fatal_hook) g_fatal_hook("budget", d.c_str());
    fprintf(stdout, "FATAL budget %s\n", d.c_str()); fflush(stdout);
    _exit(78);
}

NOTSAN ApiScope::ApiScope(const char *name, u64 budget) {
    start = g_steps; g_api_name = name; ++g_api_index; ++g_inlib;
    g_deadline = g_steps + budget * g_budget_scale; recompute_horizon();
    event(name, g_api_index);
}
NOTSAN ApiScope::~ApiScope() {
    --g_inlib; g_deadline = ~0ull; recompute_horizon();
    u64 used = g_steps - start;
    u64 &m = g_maxstat[g_api_name]; if (used > m) m = used;
    event("ret", used);
}

// ---------------------------------------------------------------- SimAlloc
static bool g_inhook = false;
static std::unordered_map<const void *, std::pair<u64, size_t>> *g_allocs = 0;   // ptr -> (api index, size)
NOTSAN static void mhook(const volatile void *p, size_t sz) {
    if (g_inhook || !g_allocs || !p) return;
    if (g_track <= 0 || g_incallback > 0) return;
    g_inhook = true; (*g_allocs)[(const void *)p] = std::make_pair(g_api_index, sz); ++g_alloc_count; g_inhook = false;
}
NOTSAN static void fhook(const volatile void *p) {
    if (g_inhook || !g_allocs || !p) return;
    g_inhook = true; g_allocs->erase((const void *)p); g_inhook = false;
}
void alloc_install() {
    g_inhook = true; g_allocs = new std::unordered_map<const void *, std::pair<u64, size_t>>(); g_allocs->reserve(1 << 16); g_inhook = false;
#ifndef GRSIM_PLAIN
    __sanitizer_install_malloc_and_free_hooks(mhook, fhook);
#else
    (void)mhook; (void)fhook;   // plain flavour (valgrind second opinions): no allocation ledger
#endif
}
size_t alloc_live() { return g_allocs ? g_allocs->size() : 0; }
void alloc_reset() { g_inhook = true; if (g_allocs) g_allocs->clear(); g_inhook = false; }
std::string alloc_describe(size_t max) {
    std::string s; size_t n = 0; g_inhook = true;
    // deterministic description: sort by (api index, size)
    std::vector<std::pair<u64, size_t>> v; for (auto &e : *g_allocs) v.push_back(e.second);
    std::sort(v.begin(), v.end()); std::reverse(v.begin(), v.end());     // newest first
    for (auto &e : v) { if (n++ >= max) break; s += strf("[call#%llu size=%zu]", (unsigned long long)e.first, e.second); }
    g_inhook = false; return s;
}

// ---------------------------------------------------------------- SimStore
static u8 rot_byte(u8 old, i64 v) { u8 x = u8(v & 0xFF); if (!x) x = 0x80; return u8(old ^ x); }

bool apply_content_fault(const Fault &f, Bytes &b, const std::map<u32, Bytes> &all) {
    if (f.kind == "TRUNCATE") { size_t k = size_t(f.a.empty() ? 0 : f.a[0]); if (k < b.size()) { b.resize(k); return true; } return false; }
    if (f.kind == "BITROT" || f.kind == "REFETCH_DIFFERS" || f.kind == "DIR_BITROT") {
        bool any = false;
        for (size_t i = 0; i + 1 < f.a.size(); i += 2) { if (b.empty()) break; size_t off = size_t(u64(f.a[i]) % b.size()); b[off] = rot_byte(b[off], f.a[i + 1]); any = true; }
        return any;
    }
    if (f.kind == "SETBYTES" || f.kind == "CODEROT" || f.kind == "LOOPROT") { // absolute values: a = [off, val, off, val ...]
        bool any = false;
        for (size_t i = 0; i + 1 < f.a.size(); i += 2) { size_t off = size_t(f.a[i]); if (off < b.size()) { b[off] = u8(f.a[i + 1]); any = true; } }
        return any;
    }
    if (f.kind == "SIZEROT") {      // compressed table header: announced size += a[0] (27 bits), scheme bits kept
        if (b.size() < 8 || f.a.empty()) return false;
        u32 hdr = be32(&b[4]); u32 sz = u32(i64(hdr & 0x07FFFFFF) + f.a[0]) & 0x07FFFFFF; set32(b, 4, (hdr & 0xF8000000u) | sz);
        return true;
    }
    if (f.kind == "TORN") {
        if (b.empty() || f.a.size() < 2) return false;
        size_t off = size_t(u64(f.a[0]) % b.size()), n = size_t(f.a[1]); if (n > b.size() - off) n = b.size() - off;
        const Bytes *src = 0;
        if (f.a.size() > 2 && f.a[2] > 0 && !all.empty()) { auto it = all.begin(); std::advance(it, size_t(f.a[2]) % all.size()); src = &it->second; }
        for (size_t i = 0; i < n; ++i) b[off + i] = (src && !src->empty()) ? (*src)[(off + i) % src->size()] : 0;
        return n > 0;
    }
    return false;
}

static bool fault_matches(const Fault &f, u32 tag, int n) {
    if (f.tag.size() != 4 || mktag(f.tag.c_str()) != tag) return false;
    if (f.nth == -1) return true;
    if (f.nth == -2) return n >= 1;
    return f.nth == n;
}

NOTSAN const void *store_get_table(const void *h, unsigned int tag, size_t *len) {
    ++g_incallback;
    Store *s = (Store *)h;
    ++s->gets;
    int n = s->nreq[tag]++;
    event("get_table", tag, u64(n), u64(s->id));
    if (s->face_destroyed) violation("C16:get-after-destroy", strf("get_table('%s') after the face was destroyed (api=%s)", tagstr(tag).c_str(), g_api_name));
    const void *res = 0;
    auto it = s->tables.find(tag);
    bool nullret = (it == s->tables.end());
    bool touch_len = true; size_t lenval = 0;
    Bytes b; if (!nullret) b = it->second;
    bool zero_len = false;
    for (auto &f : s->faults) {
        if (!fault_matches(f, tag, n)) continue;
        bool fired = false;
        if (f.kind == "MISSING") { nullret = true; fired = true; }
        else if (f.kind == "NULL_WITH_LEN") { nullret = true; lenval = b.size(); fired = true; }
        else if (f.kind == "LEN_UNTOUCHED") { nullret = true; touch_len = false; fired = true; }
        else if (f.kind == "ZERO_LEN") { zero_len = true; fired = !nullret; }
        else if (!nullret) fired = apply_content_fault(f, b, s->tables);
        if (fired) { s->faulted = true; probe(("fault:" + f.kind).c_str()); event("fault", tag, u64(n)); }
    }
    if (nullret) { if (len && touch_len) *len = lenval; --g_incallback; return 0; }
    if (zero_len) b.clear();
    void *p = malloc(b.size());
    if (!b.empty()) memcpy(p, b.data(), b.size());
    s->released.erase(p);
    s->live[p] = Handout{tag, g_api_index, b.size()};
    if (len) *len = b.size();
    res = p;
    --g_incallback;
    return res;
}

NOTSAN void store_release_table(const void *h, const void *p) {
    ++g_incallback;
    Store *s = (Store *)h;
    ++s->releases;
    if (s->release_forbidden) violation("C16:release-through-short-ops", strf("release_table called although the ops structure handed to the constructor ends before that member (api=%s)", g_api_name));
    auto it = s->live.find(p);
    if (it == s->live.end()) {
        event("release_table", 0, 0, u64(s->id));
        if (s->released.count(p)) violation("C16:double-release", strf("release_table called twice for one table pointer (api=%s)", g_api_name));
        else violation("C16:foreign-release", strf("release_table called with a pointer get_table never returned (api=%s, null=%d)", g_api_name, p == 0));
    } else {
        event("release_table", it->second.tag, 0, u64(s->id));
        if (s->face_destroyed) violation("C16:release-after-destroy", strf("table '%s' released after gr_face_destroy returned", tagstr(it->second.tag).c_str()));
        s->live.erase(it);
        s->released.insert(p);
        free(const_cast<void *>(p));
    }
    --g_incallback;
}

// ---------------------------------------------------------------- SimFile
struct SimFILE { u64 magic; FileImage *img; size_t pos; bool open; };
static const u64 SIMFILE_MAGIC = 0x53494D46494C4521ull;
static std::map<int, FileImage *> g_images;
static std::set<SimFILE *> g_simfiles;
int g_next_image = 1;      // reset per run: ids appear in the event log

std::string file_register(FileImage *img) { img->id = g_next_image++; g_images[img->id] = img; return "sim:" + std::to_string(img->id); }
void file_unregister(FileImage *img) {
    g_images.erase(img->id);
    for (auto it = g_simfiles.begin(); it != g_simfiles.end();) { if ((*it)->img == img) { delete *it; it = g_simfiles.erase(it); } else ++it; }
}
static SimFILE *as_sim(FILE *f) { SimFILE *s = (SimFILE *)f; return g_simfiles.count(s) ? s : 0; }
static const Fault *file_fault(FileImage *img, const char *fn) {
    int n = img->ncall[fn]++;
    for (auto &f : img->faults) if (f.tag == fn && (f.nth == n || f.nth == -1)) { probe(("fault:" + f.kind).c_str()); event("file-fault", u64(n)); return &f; }
    return 0;
}

// ---------------------------------------------------------------- corpus
bool corpus_load(const std::string &repo) {
    g_repo = repo;
    std::string dir = repo + "/tests/fonts";
    DIR *d = opendir(dir.c_str()); if (!d) return false;
    std::vector<std::string> names;
    while (dirent *e = readdir(d)) { std::string n = e->d_name; if (n.size() > 4 && n.substr(n.size() - 4) == ".ttf") names.push_back(n.substr(0, n.size() - 4)); }
    closedir(d);
    std::sort(names.begin(), names.end());
    for (auto &n : names) {
        FontImage img; img.name = n;
        if (!read_file(dir + "/" + n + ".ttf", img.file)) continue;
        parse_sfnt(img.file, img);
        g_corpus.index[n] = int(g_corpus.fonts.size());
        g_corpus.fonts.push_back(img);
    }
    return !g_corpus.fonts.empty();
}

} // namespace sim

// ---------------------------------------------------------------- edge callback (SimClock) and stdio wrappers
using namespace sim;

extern "C" NOTSAN void __sanitizer_cov_trace_pc_guard_init(uint32_t *start, uint32_t *stop) {
    static uint32_t n = 0;
    if (start == stop || *start) return;
    for (uint32_t *x = start; x < stop; ++x) *x = ++n;
}
extern "C" NOTSAN void __sanitizer_cov_trace_pc_guard(uint32_t *guard) {
    u64 s = g_steps + 1; g_steps = s;
    if (__builtin_expect(s >= g_next_event, 0)) {
        if (s >= g_deadline) budget_hit();
        if (s >= g_sched_at && g_sched_hook) g_sched_hook(*guard);
    }
}

extern "C" {
FILE *__real_fopen(const char *, const char *);
int __real_fseek(FILE *, long, int);
long __real_ftell(FILE *);
size_t __real_fread(void *, size_t, size_t, FILE *);
int __real_fclose(FILE *);

FILE *__wrap_fopen(const char *path, const char *mode) {
    if (strncmp(path, "sim:", 4) != 0) return __real_fopen(path, mode);
    ++g_incallback;
    FILE *res = 0;
    auto it = g_images.find(atoi(path + 4));
    if (it != g_images.end()) {
        FileImage *img = it->second;
        event("fopen", u64(img->id));
        const Fault *f = file_fault(img, "fopen");
        if (!(f && f->kind == "FOPEN_FAIL")) {
            SimFILE *s = new SimFILE{SIMFILE_MAGIC, img, 0, true};
            g_simfiles.insert(s); ++img->opens; ++img->live_handles; res = (FILE *)s;
        }
    }
    --g_incallback;
    return res;
}
int __wrap_fseek(FILE *fp, long off, int whence) {
    SimFILE *s = as_sim(fp); if (!s) return __real_fseek(fp, off, whence);
    ++g_incallback; int r = 0;
    event("fseek", u64(off), u64(whence));
    if (!s->open) { violation("C01:stdio-use-after-close", "fseek on a closed FILE"); r = -1; }
    else {
        const Fault *f = file_fault(s->img, "fseek");
        if (f && f->kind == "FSEEK_FAIL") r = -1;
        else {
            long base = whence == SEEK_SET ? 0 : whence == SEEK_CUR ? long(s->pos) : long(s->img->bytes.size());
            long np = base + off;
            if (np < 0) r = -1; else s->pos = size_t(np);
        }
    }
    --g_incallback; return r;
}
long __wrap_ftell(FILE *fp) {
    SimFILE *s = as_sim(fp); if (!s) return __real_ftell(fp);
    ++g_incallback; long r;
    event("ftell");
    if (!s->open) { violation("C01:stdio-use-after-close", "ftell on a closed FILE"); r = -1; }
    else { const Fault *f = file_fault(s->img, "ftell"); r = (f && f->kind == "FTELL_MINUS1") ? -1 : long(s->pos); }
    --g_incallback; return r;
}
size_t __wrap_fread(void *ptr, size_t size, size_t nmemb, FILE *fp) {
    SimFILE *s = as_sim(fp); if (!s) return __real_fread(ptr, size, nmemb, fp);
    ++g_incallback; size_t r = 0;
    event("fread", u64(size), u64(nmemb));
    ++s->img->freads;
    if (!s->open) violation("C01:stdio-use-after-close", "fread on a closed FILE");
    else {
        const Fault *f = file_fault(s->img, "fread");
        size_t want = size * nmemb;
        size_t avail = s->pos < s->img->bytes.size() ? s->img->bytes.size() - s->pos : 0;
        size_t n = want < avail ? want : avail;
        if (f && f->kind == "FREAD_ZERO") n = 0;
        else if (f && f->kind == "FREAD_SHORT") { size_t k = size_t(f->a.empty() ? 0 : f->a[0]); if (n > 0) n = k % n; }
        if (n) memcpy(ptr, &s->img->bytes[s->pos], n);
        s->pos += n;
        r = size ? n / size : 0;
    }
    --g_incallback; return r;
}
int __wrap_fclose(FILE *fp) {
    SimFILE *s = as_sim(fp); if (!s) return __real_fclose(fp);
    ++g_incallback;
    event("fclose", u64(s->img->id));
    if (!s->open) violation("C01:stdio-double-close", "fclose on an already closed FILE");
    else { s->open = false; ++s->img->closes; --s->img->live_handles; }
    --g_incallback; return 0;
}
}

// sanitizer configuration: identical in every run (DESIGN.md 2.1, SimAlloc)
extern "C" __attribute__((used)) const char *__asan_default_options() { return "exitcode=77:detect_leaks=0:allocator_may_return_null=1:max_allocation_size_mb=1024:detect_stack_use_after_return=0:symbolize=1:handle_abort=1"; }
#ifndef GRSIM_TSAN_BUILD   // the TSan runtime also parses UBSan defaults into the shared common flags (exitcode!)
extern "C" __attribute__((used)) const char *__ubsan_default_options() { return "exitcode=77:print_stacktrace=1:halt_on_error=1"; }
#endif
extern "C" __attribute__((used)) const char *__tsan_default_options() { return "exitcode=0:halt_on_error=0:report_signal_unsafe=0:allocator_may_return_null=1:max_allocation_size_mb=1024:history_size=4"; }   // reports are captured in-process (__tsan_on_report); the exit status is the simulator's own

// ---------------------------------------------------------------- hook H1: per-pass rule-loop accounting (C02 "bounded work")
extern "C" NOTSAN void gr_verif_pass_loop(const void *, unsigned maxLoop, size_t slots0, long budget, size_t iterations) {
    const size_t bound = size_t(maxLoop) * (slots0 + size_t(budget > 0 ? budget : 0) + 2);
    ++sim::g_incallback;      // harness bookkeeping below must not be booked as library allocations
    ++sim::g_probe["loop:passes-measured"];
    if (bound) { u64 ppm = u64(iterations) * 1000000ull / bound; u64 &m = sim::g_maxstat["loop_ratio_ppm"]; if (ppm > m) m = ppm; }
    if (iterations > bound)
        sim::violation("C02:pass-loop-bound", strf("a pass ran its rule loop %zu times > maxRuleLoop %u x (slots %zu + insert budget %ld + 2) = %zu", iterations, maxLoop, slots0, budget, bound));
    --sim::g_incallback;
}
