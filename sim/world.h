// The simulated world: SimClock, SimStore (table transport + ledger), SimFile (stdio under FileFace),
// SimAlloc (allocation ledger), violation/probe/event-log plumbing.
#pragma once
#include "util.h"
#include "plan.h"
#include "sfnt.h"
#include "grapi.h"
#include <set>
#include <unordered_set>
#include <unordered_map>
#include <functional>

#if defined(__has_feature)
#  if __has_feature(thread_sanitizer)
#    define GRSIM_TSAN 1
#  endif
#endif
#define NOTSAN __attribute__((no_sanitize("thread")))

namespace sim {

// ---------------------------------------------------------------- run state
struct RunState {
    std::string viol_class;     // first violation: "<property>:<oracle-id>"
    std::string viol_detail;
    std::vector<std::pair<std::string, std::string>> all_viols;
    Hasher log;                 // event log hash
    u64 events = 0;
    std::vector<std::string> trace;   // textual event log (only when tracing)
    bool tracing = false;
};
extern RunState g_run;
extern std::map<std::string, u64> g_probe;       // reach probes / fault-fired counters, accumulated per worker
extern std::map<std::string, u64> g_maxstat;     // maxima (e.g. steps per call)

void run_reset(bool tracing);
void violation(const std::string &cls, const std::string &detail);
static inline bool violated() { return !g_run.viol_class.empty(); }
void event(const char *what, u64 a = 0, u64 b = 0, u64 c = 0);
static inline void probe(const char *name, u64 n = 1) { g_probe[name] += n; }
static inline void maxstat(const char *name, u64 v) { u64 &m = g_maxstat[name]; if (v > m) m = v; }

// ---------------------------------------------------------------- SimClock
extern volatile u64 g_steps;         // instrumented edges executed (the only clock)
extern u64 g_deadline;               // step count at which the current API call is declared hung
extern const char *g_api_name;
extern u64 g_api_index;              // index of the current/last API call in this run
extern int g_inlib;                  // >0 while control is inside a library API call
extern int g_incallback;             // >0 while inside a simulator callback called by the library
extern int g_track;                  // >0 while control is really inside a public API function (grapi.h wrappers)
extern u64 g_budget_scale;           // multiplies all budgets (replay of a budget violation)
extern bool g_budget_fatal;          // true: a budget overrun prints and _exit(78)

struct ApiScope {
    u64 start;
    ApiScope(const char *name, u64 budget);
    ~ApiScope();
};
#define API(name, budget) sim::ApiScope _api_scope_(name, budget)
static const u64 BUDGET_SMALL = 20000000ull;         // queries
static const u64 BUDGET_LOAD = 1500000000ull;        // face construction
static inline u64 budget_seg(size_t nchars) { return 200000000ull + 4000000ull * nchars; }

// ---------------------------------------------------------------- SimAlloc
void alloc_install();
size_t alloc_live();                 // number of live allocations made inside library calls
std::string alloc_describe(size_t max = 3);
void alloc_reset();
extern u64 g_alloc_count;            // allocations made inside the library (total)

// ---------------------------------------------------------------- SimStore
struct Handout { u32 tag; u64 api; size_t len; };
struct Store {
    int id = 0;
    std::string font;
    std::map<u32, Bytes> tables;
    std::vector<Fault> faults;
    std::map<u32, int> nreq;
    std::map<const void *, Handout> live;
    std::set<const void *> released;     // pointers released earlier (to tell double from foreign release)
    u64 gets = 0, releases = 0;
    bool release_forbidden = false;      // the client's ops structure had no release_table member: any release call is the library's invention
    bool face_destroyed = false;         // set once the owning face's destroy (or failed ctor) has returned
    bool faulted = false;                // any fault fired
    void reset_counters() { nreq.clear(); }
};
const void *store_get_table(const void *h, unsigned int tag, size_t *len);
void store_release_table(const void *h, const void *p);
// fault application shared with the file image builder
bool apply_content_fault(const Fault &f, Bytes &b, const std::map<u32, Bytes> &all);

// ---------------------------------------------------------------- SimFile
struct FileImage {
    int id = 0;
    Bytes bytes;
    std::vector<Fault> faults;
    std::map<std::string, int> ncall;
    int opens = 0, closes = 0, live_handles = 0;
    u64 freads = 0;
};
std::string file_register(FileImage *img);      // returns the "sim:<n>" path
void file_unregister(FileImage *img);

// ---------------------------------------------------------------- corpus
struct Corpus {
    std::vector<FontImage> fonts;
    std::map<std::string, int> index;
    const FontImage *find(const std::string &name) const { auto i = index.find(name); return i == index.end() ? 0 : &fonts[i->second]; }
};
extern Corpus g_corpus;
extern std::string g_repo;
bool corpus_load(const std::string &repo);

} // namespace sim
