#!/bin/bash
# evaluate every seeded mutant against its own property's quick check (parallel, 3 at a time)
cd "$(dirname "$0")/.."
mkdir -p build/evalmut
ls seeded | grep -E "${1:-.}" | xargs -P ${JOBS:-3} -I{} bash -c 'p=$(echo {} | cut -d- -f1); tools/evalmut.sh seeded/{}/patch.diff $p ${EXTRA:-} > build/evalmut/{}.txt 2>&1'
for f in build/evalmut/*.txt; do echo "### $(basename $f .txt)"; grep "^==\|VIOLATION\|KNOWN\|UNDECIDED" $f | cut -c1-250; done
