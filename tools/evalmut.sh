#!/bin/bash
# Evaluate checks against a patched scratch copy of /repo (never touches /repo itself).
# usage: tools/evalmut.sh <patch.diff> <check-id> [<check-id> ...]     env: SCALE (runs-scale, default 1)
set -u
PATCH=$(readlink -f "$1"); shift
VERIF=$(cd "$(dirname "$0")/.." && pwd)
W=$(mktemp -d /tmp/grsim-mut.XXXXXX)
mkdir -p $W/repo $W/out
cp -r /repo/src /repo/include $W/repo/
ln -s /repo/tests $W/repo/tests
( cd $W/repo && git init -q . 2>/dev/null && git apply --whitespace=nowarn "$PATCH" ) || { echo "PATCH DOES NOT APPLY"; rm -rf $W; exit 3; }
rc_all=0
for c in "$@"; do
  out=$(GRSIM_REPO=$W/repo GRSIM_OUT=$W/out $VERIF/check $c --runs-scale ${SCALE:-1} 2>$W/err.txt); rc=$?
  echo "== $c rc=$rc"; echo "$out" | grep "VIOLATION\|KNOWN\|UNDECIDED\|tier=" | cut -c1-300
  grep "^violation:" $W/err.txt | cut -c1-400 | head -3
  if [ $rc = 2 ]; then tail -5 $W/err.txt | cut -c1-300; fi
done
# drop the build made for this scratch tree
rm -rf $W
