#!/usr/bin/env python3
"""Summarise build/evalmut/*.txt (output of tools/evalall.sh) into the seeded metas and a table.
   usage: tools/matrix.py [--write]   (--write updates evaluation.detected_now / final_matrix in every meta.json)"""
import os, re, sys, json, glob
V = os.path.dirname(os.path.dirname(os.path.abspath(__file__)))
write = '--write' in sys.argv
rows = []
for d in sorted(glob.glob(os.path.join(V, 'seeded', 'C*'))):
    mid = os.path.basename(d); mp = os.path.join(d, 'meta.json')
    if not os.path.exists(mp): continue
    meta = json.load(open(mp)); ev = os.path.join(V, 'build', 'evalmut', mid + '.txt')
    if not os.path.exists(ev): rows.append((mid, 'NOT-RUN', '')); continue
    t = open(ev).read()
    vio = sorted(set(re.findall(r'VIOLATION property=(C\d+) replay=\S*/(C\d+-\w+-\d+)\.json', t)))
    if 'PATCH DOES NOT APPLY' in t: st = 'NO-APPLY'
    elif re.search(r'rc=1', t) or vio: st = 'DETECTED'
    elif re.search(r'rc=0', t): st = 'MISSED'
    else: st = 'UNDECIDED'
    rows.append((mid, st, ', '.join('%s via %s' % v for v in vio[:2])))
    if write:
        meta.setdefault('evaluation', {})['final_matrix'] = {'status': st, 'violations': ['%s via %s' % v for v in vio[:3]]}
        if st == 'DETECTED': meta['evaluation']['detected_now'] = True
        json.dump(meta, open(mp, 'w'), indent=1)
from collections import Counter
c = Counter(r[1] for r in rows)
print(dict(c), 'total', len(rows))
for r in rows:
    if r[1] != 'DETECTED': print('%-10s %-10s %s' % r)
