#!/usr/bin/env python3
"""Sensitivity selftest: break a property on purpose in a scratch copy of /repo and require the property's quick
check to report a violation; the unedited copy must pass. Nothing under /repo or /verif/evidence is touched.

  tools/sensitivity.py [name-substring ...]      env SCALE=<runs-scale> (default 1), JOBS=<parallel mutants> (default 2)
"""
import os, sys, subprocess, tempfile, shutil, json, re, time
from concurrent.futures import ThreadPoolExecutor

VERIF = os.path.dirname(os.path.dirname(os.path.abspath(__file__)))
REPO = '/repo'

# (name, property whose check must fail, file, old text, new text)
M = [
 ('C01-read_glyph-bound', 'C01', 'src/GlyphCache.cpp', 'if (glocs >= m_pGlat.size() - 1 || gloce > m_pGlat.size())', 'if (glocs >= m_pGlat.size() - 1)'),
 ('C01-cmap-progress-guard', 'C01', 'src/CmapCache.cpp', 'if (codePoint <= prevCodePoint)', 'if (false)'),
 ('C01-table-release-on-badcheck', 'C16', 'src/Face.cpp', '        release();     // Make sure we release the table buffer even if the table failed its checks\n        return;', '        _p = 0; _sz = 0;\n        return;'),
 ('C02-loop-limit', 'C02', 'src/Pass.cpp', '|| --lc == 0)) {', '|| false)) {'),
 ('C02-maxloop-clamp', 'C02', 'src/Pass.cpp', '    if (m_iMaxLoop < 1) m_iMaxLoop = 1;\n', ''),
 ('C02-slotat-lower-bound', 'C02', 'src/inc/opcodes.h', '((map + (x) >= &smap[-1] && map + (x) < smap.end()) ?', '((map + (x) < smap.end()) ?'),
 ('C03-delete-count', 'C03', 'src/inc/opcodes.h', '        is = is->prev();\n    seg.extendLength(-1);', '        is = is->prev();'),
 ('C04-attach-cycle-guard', 'C04', 'src/Slot.cpp', 'if (count < 100 && !foundOther && other->child(this))', 'if (other->child(this))'),
 ('C04-reattach-keeps-old-parent', 'C04', 'src/Slot.cpp', 'if (m_parent) { m_parent->removeChild(this); attachTo(NULL); }', 'if (m_parent) { attachTo(NULL); }'),
 ('C05-index-assign', 'C03', 'src/Segment.cpp', 'for (Slot * s = m_first; s; s->index(i++), s = s->next())', 'for (Slot * s = m_first; s; s->index(i), i += (i < 40), s = s->next())'),
 ('C08-cache-fallback-glyph', 'C08', 'src/GlyphCache.cpp', '            delete g;\n            return *_glyphs;', '            delete g;\n            p = *_glyphs;\n            return *_glyphs;'),
 ('C09-keep-loader', 'C09', 'src/GlyphCache.cpp', '        delete _glyph_loader;\n        _glyph_loader = 0;\n\t// coverity', '\t// coverity'),
 ('C09-skip-nametable-preload', 'C09', 'src/Face.cpp', '        nameTable();        // preload the name table along with the glyphs.', ''),
 ('C10-eager-offbyone', 'C10', 'src/GlyphCache.cpp', '_glyphs[gid] = loaded = _glyph_loader->read_glyph(gid, glyphs[gid], &numsubs);', '_glyphs[gid] = loaded = _glyph_loader->read_glyph(gid > 300 ? gid - 1 : gid, glyphs[gid], &numsubs);'),
 ('C14-mask-width', 'C14', 'src/Face.cpp', 'uncompressed_size  = hdr & 0x07ffffff;', 'uncompressed_size  = hdr & 0x0fffffff;'),
 ('C14-overlap-copy', 'C14', 'src/Decompressor.cpp', 'if (dst > pcpy+sizeof(unsigned long)', 'if (dst >= pcpy+sizeof(unsigned long)-4'),
 ('C14-lastliterals', 'C14', 'src/Decompressor.cpp', '              || match_len > unsigned(out_size - LASTLITERALS)\n', ''),
 ('C16-assign-without-release', 'C16', 'src/Face.cpp', '    if (this == &rhs)   return *this;\n    release();\n    new (this)', '    if (this == &rhs)   return *this;\n    new (this)'),
 ('C18-clear-mask', 'C18', 'src/FeatureMap.cpp', '    pDest[m_index] &= ~m_mask;\n', ''),
 ('C18-range-check', 'C18', 'src/FeatureMap.cpp', 'if (val>maxVal() || !m_face)', 'if (val>maxVal()+1 || !m_face)'),
 ('C19-dellineend-relink', 'C19', 'src/Justifier.cpp', '        nSlot->prev(s->prev());\n', ''),
 ('C19-linebreak-prev', 'C19', 'src/gr_slot.cpp', '    prev->next(NULL);\n    p->prev(NULL);', '    prev->next(NULL);'),
]


def run_one(m, scale):
    name, prop, rel, old, new = m
    w = tempfile.mkdtemp(prefix='grsim-mut.')
    try:
        os.makedirs(w + '/repo'); os.makedirs(w + '/out')
        shutil.copytree(REPO + '/src', w + '/repo/src'); shutil.copytree(REPO + '/include', w + '/repo/include')
        os.symlink(REPO + '/tests', w + '/repo/tests')
        if name != 'UNEDITED':
            p = w + '/repo/' + rel
            s = open(p).read()
            if old not in s:
                return (name, prop, 'STALE', 'pattern not found in %s' % rel, 0)
            open(p, 'w').write(s.replace(old, new, 1))
        t0 = time.time()
        env = dict(os.environ, GRSIM_REPO=w + '/repo', GRSIM_OUT=w + '/out')
        r = subprocess.run([VERIF + '/check', prop, '--runs-scale', str(scale)], env=env, stdout=subprocess.PIPE, stderr=subprocess.PIPE, text=True)
        viol = [l for l in r.stdout.splitlines() if l.startswith('VIOLATION')]
        detail = [l for l in r.stderr.splitlines() if l.startswith('violation:')]
        verdict = {0: 'PASSED', 1: 'CAUGHT', 2: 'UNDECIDED'}.get(r.returncode, 'rc=%d' % r.returncode)
        note = (viol[0] if viol else '') + ' ' + (detail[0][:200] if detail else '')
        if r.returncode == 2:
            note += ' ' + r.stdout.strip().splitlines()[-1][:200] + ' | ' + r.stderr.strip()[-300:].replace('\n', ' ')
        return (name, prop, verdict, note.strip(), time.time() - t0)
    finally:
        shutil.rmtree(w, ignore_errors=True)


def main():
    sel = sys.argv[1:]
    scale = float(os.environ.get('SCALE', '1'))
    jobs = int(os.environ.get('JOBS', '2'))
    todo = [m for m in M if not sel or any(s in m[0] for s in sel)]
    if not sel:
        todo = [('UNEDITED', p, '', '', '') for p in sorted(set(m[1] for m in M))] + todo
    with ThreadPoolExecutor(max_workers=jobs) as ex:
        res = list(ex.map(lambda m: run_one(m, scale), todo))
    bad = 0
    for name, prop, verdict, note, dt in res:
        ok = (verdict == 'PASSED') if name == 'UNEDITED' else (verdict == 'CAUGHT')
        bad += 0 if ok else 1
        print('%-34s %-4s %-9s %5.0fs  %s' % (name, prop, verdict, dt, note[:260]))
    print('sensitivity: %d/%d as expected' % (len(res) - bad, len(res)))
    return 0 if bad == 0 else 1


if __name__ == '__main__':
    sys.exit(main())
